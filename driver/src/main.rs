//! avgfacts — a rustc driver that serialises the resolved program (ADTs, impls, MIR bodies with
//! resolved callees, evaluated constants and macro provenance) of selected crates to JSON.
//!
//! It decides nothing: every rule lives in /verif/analysis. Used as RUSTC_WRAPPER under
//! `cargo +nightly check`; crates not named in AVGFACTS_CRATES are compiled unchanged.
#![feature(rustc_private)]

extern crate rustc_abi;
extern crate rustc_ast;
extern crate rustc_ast_pretty;
extern crate rustc_data_structures;
extern crate rustc_driver;
extern crate rustc_hir;
extern crate rustc_hir_pretty;
extern crate rustc_interface;
extern crate rustc_lint;
extern crate rustc_lint_defs;
extern crate rustc_middle;
extern crate rustc_session;
extern crate rustc_span;

mod json;

use json::J;
use rustc_driver::{Callbacks, Compilation};
use rustc_hir::def::DefKind;
use rustc_hir::def_id::{DefId, LocalDefId, LOCAL_CRATE};
use rustc_interface::interface;
use rustc_middle::mir::{
    self, AggregateKind, BinOp, Body, BorrowKind, CastKind, Const, ConstValue, Operand, Place,
    ProjectionElem, Rvalue, StatementKind, TerminatorKind, UnOp,
};
use rustc_middle::ty::print::{with_no_trimmed_paths, with_no_visible_paths};
use rustc_middle::ty::{self, GenericArgsRef, Instance, InstanceKind, Ty, TyCtxt, TypingEnv};
use rustc_span::Span;

#[derive(Default)]
struct Dump {
    /// struct/enum attributes as written in the expanded AST (HIR lowering drops inert derive
    /// helper attributes such as `#[serde(..)]`): def path -> (item attrs, [(field, attrs)])
    ast_attrs: Vec<(String, Vec<String>, Vec<(String, Vec<String>)>)>,
}

fn collect_ast_attrs<'tcx>(
    tcx: TyCtxt<'tcx>,
    out: &mut Vec<(String, Vec<String>, Vec<(String, Vec<String>)>)>,
) {
    use rustc_ast::visit::{self, Visitor};
    use rustc_ast::{Item, ItemKind, VariantData};
    let mut raw: Vec<(LocalDefId, Vec<String>, Vec<(String, Vec<String>)>)> = Vec::new();
    {
        let stolen = tcx.resolver_for_lowering();
        let guard = stolen.borrow();
        let (resolver, krate) = &*guard;
        struct V<'a, 'tcx> {
            resolver: &'a ty::ResolverAstLowering<'tcx>,
            out: &'a mut Vec<(LocalDefId, Vec<String>, Vec<(String, Vec<String>)>)>,
        }
        impl<'a, 'tcx, 'ast> Visitor<'ast> for V<'a, 'tcx> {
            fn visit_item(&mut self, item: &'ast Item) {
                let vd: Option<&VariantData> = match &item.kind {
                    ItemKind::Struct(_, _, vd) => Some(vd),
                    ItemKind::Union(_, _, vd) => Some(vd),
                    _ => None,
                };
                if let Some(vd) = vd {
                    if let Some(ldid) = self.resolver.node_id_to_def_id.get(&item.id) {
                        let ia: Vec<String> = item
                            .attrs
                            .iter()
                            .filter(|a| !a.is_doc_comment())
                            .map(|a| rustc_ast_pretty::pprust::attribute_to_string(a))
                            .collect();
                        let mut fs = Vec::new();
                        for f in vd.fields() {
                            let nm = f.ident.map(|i| i.to_string()).unwrap_or_default();
                            let fa: Vec<String> = f
                                .attrs
                                .iter()
                                .filter(|a| !a.is_doc_comment())
                                .map(|a| rustc_ast_pretty::pprust::attribute_to_string(a))
                                .collect();
                            fs.push((nm, fa));
                        }
                        self.out.push((*ldid, ia, fs));
                    }
                }
                visit::walk_item(self, item);
            }
        }
        let mut v = V { resolver, out: &mut raw };
        visit::walk_crate(&mut v, krate);
    }
    // the borrow is released: queries that lower to HIR are safe again
    for (ldid, ia, fs) in raw {
        out.push((tcx.def_path_str(ldid.to_def_id()), ia, fs));
    }
}

impl Callbacks for Dump {
    fn config(&mut self, _config: &mut interface::Config) {}

    fn after_expansion<'tcx>(
        &mut self,
        _compiler: &interface::Compiler,
        tcx: TyCtxt<'tcx>,
    ) -> Compilation {
        let name = tcx.crate_name(LOCAL_CRATE).to_string();
        let wanted = std::env::var("AVGFACTS_CRATES").unwrap_or_default();
        if wanted.split(',').any(|w| w == name) {
            let mut v = Vec::new();
            with_no_trimmed_paths!(with_no_visible_paths!(collect_ast_attrs(tcx, &mut v)));
            self.ast_attrs = v;
        }
        Compilation::Continue
    }

    fn after_analysis<'tcx>(
        &mut self,
        _compiler: &interface::Compiler,
        tcx: TyCtxt<'tcx>,
    ) -> Compilation {
        let name = tcx.crate_name(LOCAL_CRATE).to_string();
        let wanted = std::env::var("AVGFACTS_CRATES").unwrap_or_default();
        if !wanted.split(',').any(|w| w == name) {
            return Compilation::Continue;
        }
        let out_dir = match std::env::var("AVGFACTS_OUT") {
            Ok(d) => d,
            Err(_) => return Compilation::Continue,
        };
        // Only dump when the type check succeeded; otherwise cargo reports the error.
        if tcx.dcx().has_errors().is_some() {
            return Compilation::Continue;
        }
        let j = with_no_trimmed_paths!(with_no_visible_paths!(dump_crate(tcx, &name, &self.ast_attrs)));
        let mut s = String::with_capacity(1 << 22);
        j.write(&mut s);
        s.push('\n');
        let path = format!("{}/{}.json", out_dir, name);
        // One write per process.
        std::fs::write(&path, s).expect("avgfacts: cannot write fact file");
        Compilation::Continue
    }
}

struct NoOp;
impl Callbacks for NoOp {}

fn main() {
    let mut args: Vec<String> = std::env::args().collect();
    // RUSTC_WRAPPER protocol: argv[1] is the path of the real rustc.
    if args.len() > 1 && (args[1].ends_with("rustc") || args[1].contains("/rustc")) {
        args.remove(1);
    }
    let is_probe = args.iter().any(|a| a == "-vV" || a == "--version" || a.starts_with("--print"));
    if is_probe || std::env::var("AVGFACTS_OUT").is_err() {
        rustc_driver::run_compiler(&args, &mut NoOp);
    } else {
        rustc_driver::run_compiler(&args, &mut Dump::default());
    }
}

// ------------------------------------------------------------------------------------------
// helpers

fn dp(tcx: TyCtxt<'_>, d: DefId) -> String {
    tcx.def_path_str(d)
}

fn span_obj(tcx: TyCtxt<'_>, sp: Span) -> J {
    // `sp`: where the code was written (macro definition site for expanded code);
    // `cs`: outermost call site; `mx`: macro backtrace, innermost first.
    let sm = tcx.sess.source_map();
    let loc = |s: Span| -> String {
        if s.is_dummy() {
            return "?".to_string();
        }
        let lo = sm.lookup_char_pos(s.lo());
        let f = format!("{}", lo.file.name.prefer_local_unconditionally());
        format!("{}:{}:{}", f, lo.line, lo.col.0 + 1)
    };
    let mut mx = Vec::new();
    let mut outer = sp;
    for e in sp.macro_backtrace() {
        let nm = match e.kind {
            rustc_span::ExpnKind::Macro(k, n) => format!("{}:{}", k.descr(), n),
            rustc_span::ExpnKind::Desugaring(d) => format!("desugar:{}", d.descr()),
            rustc_span::ExpnKind::AstPass(_) => "astpass".to_string(),
            rustc_span::ExpnKind::Root => "root".to_string(),
        };
        mx.push(J::s(nm));
        outer = e.call_site;
    }
    let mut o = J::obj().fs("sp", loc(sp));
    if !mx.is_empty() {
        o = o.fs("cs", loc(outer)).f("mx", J::Arr(mx));
    }
    o.done()
}

fn ty_j<'tcx>(tcx: TyCtxt<'tcx>, t: Ty<'tcx>) -> J {
    let s = format!("{}", t);
    match t.kind() {
        ty::Bool | ty::Char | ty::Int(_) | ty::Uint(_) | ty::Float(_) | ty::Str | ty::Never => {
            J::obj().fs("k", "prim").fs("s", s).done()
        }
        ty::Adt(def, args) => {
            let targs: Vec<J> = args.iter().map(|a| garg_j(tcx, a)).collect();
            J::obj()
                .fs("k", "adt")
                .fs("path", dp(tcx, def.did()))
                .f("args", J::Arr(targs))
                .fs("s", s)
                .done()
        }
        ty::Array(e, n) => J::obj()
            .fs("k", "array")
            .f("elem", ty_j(tcx, *e))
            .f("len", tyconst_j(tcx, *n))
            .fs("s", s)
            .done(),
        ty::Slice(e) => J::obj().fs("k", "slice").f("elem", ty_j(tcx, *e)).fs("s", s).done(),
        ty::Ref(_, to, m) => J::obj()
            .fs("k", "ref")
            .fb("mut", m.is_mut())
            .f("to", ty_j(tcx, *to))
            .fs("s", s)
            .done(),
        ty::RawPtr(to, m) => J::obj()
            .fs("k", "ptr")
            .fb("mut", m.is_mut())
            .f("to", ty_j(tcx, *to))
            .fs("s", s)
            .done(),
        ty::Tuple(ts) => {
            let e: Vec<J> = ts.iter().map(|x| ty_j(tcx, x)).collect();
            J::obj().fs("k", "tuple").f("elems", J::Arr(e)).fs("s", s).done()
        }
        ty::Param(p) => J::obj().fs("k", "param").fs("name", p.name.to_string()).fs("s", s).done(),
        ty::Closure(d, _) => J::obj().fs("k", "closure").fs("path", dp(tcx, *d)).fs("s", s).done(),
        ty::FnDef(d, a) => J::obj()
            .fs("k", "fndef")
            .fs("path", dp(tcx, *d))
            .f("args", J::Arr(a.iter().map(|x| garg_j(tcx, x)).collect()))
            .fs("s", s)
            .done(),
        _ => J::obj().fs("k", "other").fs("s", s).done(),
    }
}

fn garg_j<'tcx>(tcx: TyCtxt<'tcx>, a: ty::GenericArg<'tcx>) -> J {
    if let Some(t) = a.as_type() {
        ty_j(tcx, t)
    } else if let Some(c) = a.as_const() {
        J::obj().fs("k", "const").f("v", tyconst_j(tcx, c)).done()
    } else {
        J::obj().fs("k", "region").done()
    }
}

fn tyconst_j<'tcx>(tcx: TyCtxt<'tcx>, c: ty::Const<'tcx>) -> J {
    match c.kind() {
        ty::ConstKind::Value(v) => {
            if let Some(si) = v.try_to_leaf() {
                let bits = si.to_bits_unchecked();
                return J::obj().fi("v", bits as i128).done();
            }
            J::obj().fs("expr", format!("{}", c)).done()
        }
        ty::ConstKind::Param(p) => J::obj().fs("param", p.name.to_string()).done(),
        ty::ConstKind::Unevaluated(u) => {
            // Try to evaluate closed anon consts (e.g. `MAX_MOMENT - 1`).
            let mut o = J::obj().fs("uneval", dp(tcx, u.def)).f(
                "args",
                J::Arr(u.args.iter().map(|x| garg_j(tcx, x)).collect()),
            );
            if !u.args.iter().any(|a| a.has_param_placeholders()) {
                // closed: evaluate
                if let Ok(Ok(val)) = std::panic::catch_unwind(std::panic::AssertUnwindSafe(|| {
                    tcx.const_eval_resolve_for_typeck(
                        TypingEnv::fully_monomorphized(),
                        u,
                        rustc_span::DUMMY_SP,
                    )
                })) {
                    if let Ok(vt) = val {
                        if let Some(si) = vt.try_to_leaf() {
                            o = o.fi("v", si.to_bits_unchecked() as i128);
                        }
                    }
                }
            }
            o.done()
        }
        _ => J::obj().fs("expr", format!("{}", c)).done(),
    }
}

trait HasParams {
    fn has_param_placeholders(&self) -> bool;
}
impl<'tcx> HasParams for ty::GenericArg<'tcx> {
    fn has_param_placeholders(&self) -> bool {
        use rustc_middle::ty::TypeVisitableExt;
        self.has_param() || self.has_infer() || self.has_placeholders()
    }
}

// ------------------------------------------------------------------------------------------

fn dump_crate<'tcx>(
    tcx: TyCtxt<'tcx>,
    name: &str,
    ast_attrs: &[(String, Vec<String>, Vec<(String, Vec<String>)>)],
) -> J {
    let mut adts = Vec::new();
    let mut impls = Vec::new();
    let mut statics = Vec::new();
    let mut consts = Vec::new();
    let mut traits = Vec::new();

    let items = tcx.hir_crate_items(());
    for ldid in items.definitions() {
        let did = ldid.to_def_id();
        match tcx.def_kind(did) {
            DefKind::Struct | DefKind::Enum | DefKind::Union => adts.push(adt_j(tcx, ldid)),
            DefKind::Impl { .. } => impls.push(impl_j(tcx, ldid)),
            DefKind::Static { .. } => {
                statics.push(
                    J::obj()
                        .fs("path", dp(tcx, did))
                        .fs("ty", format!("{}", tcx.type_of(did).instantiate_identity().skip_norm_wip()))
                        .f("span", span_obj(tcx, tcx.def_span(did)))
                        .done(),
                );
            }
            DefKind::Const { .. } | DefKind::AssocConst { .. } => {
                let mut o = J::obj().fs("path", dp(tcx, did)).fs(
                    "ty",
                    format!("{}", tcx.type_of(did).instantiate_identity().skip_norm_wip()),
                );
                if tcx.generics_of(did).is_empty() {
                    if let Ok(v) = tcx.const_eval_poly(did) {
                        if let Some(s) = v.try_to_scalar_int() {
                            o = o.fi("bits", s.to_bits_unchecked() as i128);
                        }
                    }
                }
                consts.push(o.done());
            }
            DefKind::Trait => {
                let its: Vec<J> =
                    tcx.associated_item_def_ids(did).iter().map(|d| J::s(dp(tcx, *d))).collect();
                traits.push(J::obj().fs("path", dp(tcx, did)).f("items", J::Arr(its)).done());
            }
            _ => {}
        }
    }

    let mut fns = Vec::new();
    let mut keys: Vec<LocalDefId> = tcx.mir_keys(()).iter().copied().collect();
    keys.sort_by_key(|k| tcx.def_path_str(k.to_def_id()));
    for ldid in keys {
        let did = ldid.to_def_id();
        match tcx.def_kind(did) {
            DefKind::Fn | DefKind::AssocFn | DefKind::Closure => {
                let body = tcx.optimized_mir(did);
                fns.push(fn_j(tcx, ldid, body, None));
                for (pi, pb) in tcx.promoted_mir(did).iter_enumerated() {
                    fns.push(fn_j(tcx, ldid, pb, Some(pi.as_u32())));
                }
            }
            DefKind::AnonConst | DefKind::InlineConst | DefKind::Const { .. } | DefKind::AssocConst { .. } => {
                // named constants of aggregate type (`const EMPTY: Self = Min { x: INFINITY }`) are
                // evaluated by the analysis from their initialiser body, like anonymous ones
                let body = tcx.mir_for_ctfe(did);
                fns.push(fn_j(tcx, ldid, body, None));
            }
            _ => {}
        }
    }

    // crate-level facts
    let unsafe_level = {
        let store = rustc_lint::unerased_lint_store(tcx.sess);
        match store.find_lints("unsafe_code") {
            Some(ids) if !ids.is_empty() => {
                let lvl = tcx.lint_level_at_node(ids[0].lint, rustc_hir::CRATE_HIR_ID);
                format!("{:?}", lvl.level)
            }
            _ => "unknown".to_string(),
        }
    };
    let mut feats_s: Vec<String> = tcx
        .sess
        .config
        .iter()
        .map(|(k, v)| match v {
            Some(v) => format!("{}=\"{}\"", k, v),
            None => format!("{}", k),
        })
        .collect();
    feats_s.sort();
    let feats: Vec<J> = feats_s.into_iter().map(J::s).collect();

    let ast_attrs_j: Vec<J> = ast_attrs
        .iter()
        .map(|(p, ia, fs)| {
            J::obj()
                .fs("path", p.clone())
                .f("attrs", J::Arr(ia.iter().map(|x| J::s(x.clone())).collect()))
                .f(
                    "fields",
                    J::Arr(
                        fs.iter()
                            .map(|(n, fa)| {
                                J::obj()
                                    .fs("name", n.clone())
                                    .f("attrs", J::Arr(fa.iter().map(|x| J::s(x.clone())).collect()))
                                    .done()
                            })
                            .collect(),
                    ),
                )
                .done()
        })
        .collect();
    J::obj()
        .fs("crate", name)
        .f("ast_attrs", J::Arr(ast_attrs_j))
        .f("cfg", J::Arr(feats))
        .fs("unsafe_code_lint", unsafe_level)
        .f("adts", J::Arr(adts))
        .f("impls", J::Arr(impls))
        .f("traits", J::Arr(traits))
        .f("statics", J::Arr(statics))
        .f("consts", J::Arr(consts))
        .f("fns", J::Arr(fns))
        .done()
}

fn attrs_j(tcx: TyCtxt<'_>, did: DefId) -> J {
    let mut v = Vec::new();
    if let Some(l) = did.as_local() {
        let hid = tcx.local_def_id_to_hir_id(l);
        for a in tcx.hir_attrs(hid) {
            let s = rustc_hir_pretty::attribute_to_string(&tcx, a);
            v.push(J::s(s.trim().to_string()));
        }
    }
    J::Arr(v)
}

fn vis_s(tcx: TyCtxt<'_>, did: DefId) -> String {
    match tcx.def_kind(did) {
        DefKind::Fn
        | DefKind::AssocFn
        | DefKind::Struct
        | DefKind::Enum
        | DefKind::Union
        | DefKind::Field
        | DefKind::Const { .. }
        | DefKind::AssocConst { .. }
        | DefKind::Static { .. }
        | DefKind::Trait => match tcx.visibility(did) {
            ty::Visibility::Public => "pub".to_string(),
            ty::Visibility::Restricted(m) => {
                if m.is_crate_root() {
                    "crate".to_string()
                } else {
                    format!("in:{}", dp(tcx, m))
                }
            }
        },
        _ => "n/a".to_string(),
    }
}

fn adt_j<'tcx>(tcx: TyCtxt<'tcx>, ldid: LocalDefId) -> J {
    let did = ldid.to_def_id();
    let def = tcx.adt_def(did);
    let gens = tcx.generics_of(did);
    let mut gparams = Vec::new();
    for p in &gens.own_params {
        let kind = match p.kind {
            ty::GenericParamDefKind::Lifetime => "lifetime",
            ty::GenericParamDefKind::Type { .. } => "type",
            ty::GenericParamDefKind::Const { .. } => "const",
        };
        gparams.push(J::obj().fs("name", p.name.to_string()).fs("kind", kind).done());
    }
    let mut variants = Vec::new();
    for v in def.variants() {
        let mut fields = Vec::new();
        for f in &v.fields {
            let fty = tcx.type_of(f.did).instantiate_identity().skip_norm_wip();
            fields.push(
                J::obj()
                    .fs("name", f.name.to_string())
                    .f("ty", ty_j(tcx, fty))
                    .fs("vis", vis_s(tcx, f.did))
                    .f("attrs", attrs_j(tcx, f.did))
                    .done(),
            );
        }
        variants.push(J::obj().fs("name", v.name.to_string()).f("fields", J::Arr(fields)).done());
    }
    let kind = if def.is_struct() {
        "struct"
    } else if def.is_enum() {
        "enum"
    } else {
        "union"
    };
    J::obj()
        .fs("path", dp(tcx, did))
        .fs("kind", kind)
        .fs("vis", vis_s(tcx, did))
        .f("generics", J::Arr(gparams))
        .f("variants", J::Arr(variants))
        .f("attrs", attrs_j(tcx, did))
        .f("span", span_obj(tcx, tcx.def_span(did)))
        .done()
}

fn impl_j<'tcx>(tcx: TyCtxt<'tcx>, ldid: LocalDefId) -> J {
    let did = ldid.to_def_id();
    let self_ty = tcx.type_of(did).instantiate_identity().skip_norm_wip();
    let tr = tcx.impl_opt_trait_ref(did).map(|t| t.instantiate_identity().skip_norm_wip());
    let items: Vec<J> = tcx
        .associated_item_def_ids(did)
        .iter()
        .map(|d| {
            J::obj()
                .fs("path", dp(tcx, *d))
                .fs("name", tcx.item_name(*d).to_string())
                .fs("kind", format!("{:?}", tcx.def_kind(*d)))
                .done()
        })
        .collect();
    let mut o = J::obj()
        .fs("path", dp(tcx, did))
        .f("self_ty", ty_j(tcx, self_ty))
        .fb("derived", tcx.is_automatically_derived(did))
        .f("items", J::Arr(items))
        .f("attrs", attrs_j(tcx, did))
        .f("span", span_obj(tcx, tcx.def_span(did)));
    match tr {
        Some(t) => {
            o = o
                .fs("trait", dp(tcx, t.def_id))
                .fs("trait_ref", format!("{}", t))
                .f(
                    "trait_args",
                    J::Arr(t.args.iter().skip(1).map(|a| garg_j(tcx, a)).collect()),
                );
        }
        None => {
            o = o.f("trait", J::Null);
        }
    }
    o.done()
}

// ------------------------------------------------------------------------------------------
// MIR

struct Cx<'a, 'tcx> {
    tcx: TyCtxt<'tcx>,
    body: &'a Body<'tcx>,
    env: TypingEnv<'tcx>,
}

fn fn_j<'tcx>(tcx: TyCtxt<'tcx>, ldid: LocalDefId, body: &Body<'tcx>, promoted: Option<u32>) -> J {
    let did = ldid.to_def_id();
    let cx = Cx { tcx, body, env: TypingEnv::post_analysis(tcx, did) };
    let kind = tcx.def_kind(did);
    let mut locals = Vec::new();
    for (_l, d) in body.local_decls.iter_enumerated() {
        locals.push(J::obj().f("ty", ty_j(tcx, d.ty)).fb("mut", d.mutability.is_mut()).done());
    }
    let mut dbg = Vec::new();
    for v in &body.var_debug_info {
        if let mir::VarDebugInfoContents::Place(p) = &v.value {
            dbg.push(
                J::obj()
                    .fs("name", v.name.to_string())
                    .f("place", cx.place(p))
                    .f(
                        "arg",
                        match v.argument_index {
                            Some(i) => J::Int(i as i128),
                            None => J::Null,
                        },
                    )
                    .done(),
            );
        }
    }
    let mut blocks = Vec::new();
    for (_bb, data) in body.basic_blocks.iter_enumerated() {
        let mut stmts = Vec::new();
        for st in &data.statements {
            if let Some(j) = cx.stmt(st) {
                stmts.push(j);
            }
        }
        let term = cx.term(data.terminator());
        blocks.push(
            J::obj()
                .f("stmts", J::Arr(stmts))
                .f("term", term)
                .fb("cleanup", data.is_cleanup)
                .done(),
        );
    }
    // container (impl / trait) facts
    if let Some(pi) = promoted {
        return J::obj()
            .fs("path", format!("{}::promoted[{}]", dp(tcx, did), pi))
            .fs("def_kind", "Promoted")
            .fs("vis", "n/a")
            .fi("arg_count", 0)
            .f("span", span_obj(tcx, tcx.def_span(did)))
            .fs("parent", dp(tcx, did))
            .f("locals", J::Arr(locals))
            .f("debug", J::Arr(dbg))
            .f("blocks", J::Arr(blocks))
            .done();
    }
    let mut o = J::obj()
        .fs("path", dp(tcx, did))
        .fs("def_kind", format!("{:?}", kind))
        .fs("vis", vis_s(tcx, did))
        .fi("arg_count", body.arg_count as i128)
        .f("span", span_obj(tcx, tcx.def_span(did)));
    if matches!(kind, DefKind::Fn | DefKind::AssocFn) {
        let gens = tcx.generics_of(did);
        let mut names = Vec::new();
        let mut g = Some(gens);
        let mut chain = Vec::new();
        while let Some(gg) = g {
            chain.push(gg);
            g = gg.parent.map(|p| tcx.generics_of(p));
        }
        for gg in chain.iter().rev() {
            for p in &gg.own_params {
                names.push(J::s(p.name.to_string()));
            }
        }
        o = o.f("generics", J::Arr(names));
        if let Some(assoc) = tcx.opt_associated_item(did) {
            let cont = assoc.container_id(tcx);
            o = o.fs("container", dp(tcx, cont));
            if let DefKind::Impl { .. } = tcx.def_kind(cont) {
                let st = tcx.type_of(cont).instantiate_identity().skip_norm_wip();
                o = o.f("impl_self_ty", ty_j(tcx, st));
                if let Some(tr) = tcx.impl_opt_trait_ref(cont) {
                    let tr = tr.instantiate_identity().skip_norm_wip();
                    o = o.fs("impl_trait", dp(tcx, tr.def_id)).fs("impl_trait_ref", format!("{}", tr));
                }
                o = o.fb("impl_derived", tcx.is_automatically_derived(cont));
            }
        }
        o = o.f("attrs", attrs_j(tcx, did));
    }
    if matches!(kind, DefKind::Closure) {
        o = o.fs("parent", dp(tcx, tcx.typeck_root_def_id(did)));
    }
    o.f("locals", J::Arr(locals))
        .f("debug", J::Arr(dbg))
        .f("blocks", J::Arr(blocks))
        .done()
}

impl<'a, 'tcx> Cx<'a, 'tcx> {
    fn place(&self, p: &Place<'tcx>) -> J {
        let tcx = self.tcx;
        let mut proj = Vec::new();
        for (base, elem) in p.iter_projections() {
            let j = match elem {
                ProjectionElem::Deref => J::s("deref"),
                ProjectionElem::Field(f, _ty) => {
                    let bty = base.ty(self.body, tcx);
                    let mut o = J::obj().fi("f", f.as_u32() as i128);
                    if let ty::Adt(def, _) = bty.ty.kind() {
                        let vi = bty.variant_index.unwrap_or(rustc_abi::FIRST_VARIANT);
                        if (vi.as_usize()) < def.variants().len() {
                            let v = def.variant(vi);
                            if f.as_usize() < v.fields.len() {
                                o = o.fs("name", v.fields[f].name.to_string());
                            }
                        }
                        o = o.fs("adt", dp(tcx, def.did()));
                    }
                    o.done()
                }
                ProjectionElem::Index(l) => J::obj().fi("i", l.as_u32() as i128).done(),
                ProjectionElem::ConstantIndex { offset, min_length, from_end } => J::obj()
                    .fi("ci", offset as i128)
                    .fi("min", min_length as i128)
                    .fb("from_end", from_end)
                    .done(),
                ProjectionElem::Subslice { from, to, from_end } => J::obj()
                    .fi("sub_from", from as i128)
                    .fi("sub_to", to as i128)
                    .fb("from_end", from_end)
                    .done(),
                ProjectionElem::Downcast(name, vi) => J::obj()
                    .fi("dc", vi.as_u32() as i128)
                    .fs("name", name.map(|s| s.to_string()).unwrap_or_default())
                    .done(),
                ProjectionElem::OpaqueCast(_) => J::s("opaque_cast"),
                ProjectionElem::UnwrapUnsafeBinder(_) => J::s("unwrap_binder"),
            };
            proj.push(j);
        }
        J::obj().fi("l", p.local.as_u32() as i128).f("p", J::Arr(proj)).done()
    }

    fn operand(&self, o: &Operand<'tcx>) -> J {
        match o {
            Operand::Copy(p) => J::obj().f("cp", self.place(p)).done(),
            Operand::Move(p) => J::obj().f("mv", self.place(p)).done(),
            Operand::Constant(c) => J::obj().f("c", self.constant(&c.const_)).done(),
            #[allow(unreachable_patterns)]
            _ => J::obj().fs("other_operand", format!("{:?}", o)).done(),
        }
    }

    fn fn_ref(&self, did: DefId, args: GenericArgsRef<'tcx>) -> J {
        let tcx = self.tcx;
        let mut o = J::obj()
            .fs("fn", dp(tcx, did))
            .fs("full", tcx.def_path_str_with_args(did, args))
            .f("targs", J::Arr(args.iter().map(|a| garg_j(tcx, a)).collect()))
            .fb("local", did.is_local());
        if let Some(assoc) = tcx.opt_associated_item(did) {
            let cont = assoc.container_id(tcx);
            match tcx.def_kind(cont) {
                DefKind::Trait => {
                    o = o.fs("trait", dp(tcx, cont)).fs("name", assoc.name().to_string());
                }
                DefKind::Impl { .. } => {
                    o = o.fs("name", assoc.name().to_string());
                }
                _ => {}
            }
        }
        if matches!(tcx.def_kind(did), DefKind::Fn | DefKind::AssocFn) {
            let r = std::panic::catch_unwind(std::panic::AssertUnwindSafe(|| {
                Instance::try_resolve(tcx, self.env, did, args)
            }));
            if let Ok(Ok(Some(inst))) = r {
                match inst.def {
                    InstanceKind::Item(d) => {
                        o = o
                            .fs("resolved", dp(tcx, d))
                            .fb("resolved_local", d.is_local())
                            .f(
                                "resolved_targs",
                                J::Arr(inst.args.iter().map(|a| garg_j(tcx, a)).collect()),
                            );
                    }
                    other => {
                        o = o.fs("resolved_kind", format!("{:?}", other));
                    }
                }
            }
        }
        o.done()
    }

    fn constant(&self, c: &Const<'tcx>) -> J {
        let tcx = self.tcx;
        let t = c.ty();
        if let ty::FnDef(did, args) = t.kind() {
            return J::obj().f("ty", ty_j(tcx, t)).f("fnref", self.fn_ref(*did, args)).done();
        }
        let mut o = J::obj().f("ty", ty_j(tcx, t));
        match c {
            Const::Ty(_, tc) => {
                o = o.f("tyconst", tyconst_j(tcx, *tc));
                return o.done();
            }
            Const::Unevaluated(u, _) => {
                o = o.fs("uneval", dp(tcx, u.def));
                if let Some(p) = u.promoted {
                    o = o.fi("promoted", p.as_u32() as i128);
                }
            }
            Const::Val(..) => {}
        }
        // try evaluation to a value
        let val: Option<ConstValue> = match c {
            Const::Val(v, _) => Some(*v),
            _ => {
                let r = std::panic::catch_unwind(std::panic::AssertUnwindSafe(|| {
                    c.eval(tcx, self.env, rustc_span::DUMMY_SP)
                }));
                match r {
                    Ok(Ok(v)) => Some(v),
                    _ => None,
                }
            }
        };
        if let Some(v) = val {
            match v {
                ConstValue::Scalar(mir::interpret::Scalar::Int(si)) => {
                    let bits = si.to_bits_unchecked();
                    match t.kind() {
                        ty::Int(_) => {
                            let size = si.size();
                            let sv = size.sign_extend(bits) as i128;
                            o = o.fi("int", sv);
                        }
                        ty::Uint(_) => {
                            o = o.fs("uint", format!("{}", bits));
                        }
                        ty::Bool => {
                            o = o.fb("bool", bits != 0);
                        }
                        ty::Float(_) => {
                            o = o.fs("fbits", format!("{:#x}", bits)).fi("fsize", si.size().bytes() as i128);
                        }
                        ty::Char => {
                            o = o.fi("char", bits as i128);
                        }
                        _ => {
                            o = o.fs("bits", format!("{}", bits));
                        }
                    }
                }
                ConstValue::ZeroSized => {
                    o = o.fb("zst", true);
                }
                ConstValue::Slice { .. } => {
                    if let ty::Ref(_, inner, _) = t.kind() {
                        if inner.is_str() {
                            if let Some(bytes) = v.try_get_slice_bytes_for_diagnostics(tcx) {
                                o = o.fs("str", String::from_utf8_lossy(bytes).to_string());
                            }
                        }
                    }
                    o = o.fb("slice", true);
                }
                _ => {
                    o = o.fb("indirect", true);
                }
            }
        } else {
            o = o.fb("unevaluable", true);
        }
        o.fs("dbg", format!("{}", c)).done()
    }

    fn rvalue(&self, rv: &Rvalue<'tcx>) -> J {
        let tcx = self.tcx;
        match rv {
            Rvalue::Use(op, ..) => J::obj().fs("k", "use").f("op", self.operand(op)).done(),
            Rvalue::Repeat(op, n) => J::obj()
                .fs("k", "repeat")
                .f("op", self.operand(op))
                .f("len", tyconst_j(tcx, *n))
                .done(),
            Rvalue::Ref(_, bk, p) => J::obj()
                .fs("k", "ref")
                .fb("mut", matches!(bk, BorrowKind::Mut { .. }))
                .f("place", self.place(p))
                .done(),
            Rvalue::RawPtr(k, p) => J::obj()
                .fs("k", "rawptr")
                .fs("kind", format!("{:?}", k))
                .f("place", self.place(p))
                .done(),
            Rvalue::Cast(kind, op, t) => {
                let ks = match kind {
                    CastKind::IntToInt => "IntToInt".to_string(),
                    CastKind::FloatToInt => "FloatToInt".to_string(),
                    CastKind::FloatToFloat => "FloatToFloat".to_string(),
                    CastKind::IntToFloat => "IntToFloat".to_string(),
                    CastKind::PtrToPtr => "PtrToPtr".to_string(),
                    CastKind::Transmute => "Transmute".to_string(),
                    CastKind::PointerCoercion(pc, _) => format!("PointerCoercion:{:?}", pc),
                    other => format!("{:?}", other),
                };
                J::obj()
                    .fs("k", "cast")
                    .fs("kind", ks)
                    .f("op", self.operand(op))
                    .f("ty", ty_j(tcx, *t))
                    .done()
            }
            Rvalue::BinaryOp(op, ab) => {
                let (a, b) = &**ab;
                let ops = match op {
                    BinOp::Add => "Add",
                    BinOp::AddUnchecked => "AddUnchecked",
                    BinOp::AddWithOverflow => "AddWithOverflow",
                    BinOp::Sub => "Sub",
                    BinOp::SubUnchecked => "SubUnchecked",
                    BinOp::SubWithOverflow => "SubWithOverflow",
                    BinOp::Mul => "Mul",
                    BinOp::MulUnchecked => "MulUnchecked",
                    BinOp::MulWithOverflow => "MulWithOverflow",
                    BinOp::Div => "Div",
                    BinOp::Rem => "Rem",
                    BinOp::BitXor => "BitXor",
                    BinOp::BitAnd => "BitAnd",
                    BinOp::BitOr => "BitOr",
                    BinOp::Shl => "Shl",
                    BinOp::ShlUnchecked => "ShlUnchecked",
                    BinOp::Shr => "Shr",
                    BinOp::ShrUnchecked => "ShrUnchecked",
                    BinOp::Eq => "Eq",
                    BinOp::Lt => "Lt",
                    BinOp::Le => "Le",
                    BinOp::Ne => "Ne",
                    BinOp::Ge => "Ge",
                    BinOp::Gt => "Gt",
                    BinOp::Cmp => "Cmp",
                    BinOp::Offset => "Offset",
                };
                J::obj()
                    .fs("k", "bin")
                    .fs("op", ops)
                    .f("a", self.operand(a))
                    .f("b", self.operand(b))
                    .f("aty", ty_j(tcx, a.ty(self.body, tcx)))
                    .done()
            }
            Rvalue::UnaryOp(op, a) => {
                let ops = match op {
                    UnOp::Not => "Not",
                    UnOp::Neg => "Neg",
                    UnOp::PtrMetadata => "PtrMetadata",
                };
                J::obj()
                    .fs("k", "un")
                    .fs("op", ops)
                    .f("a", self.operand(a))
                    .f("aty", ty_j(tcx, a.ty(self.body, tcx)))
                    .done()
            }
            Rvalue::Discriminant(p) => J::obj().fs("k", "discr").f("place", self.place(p)).done(),
            Rvalue::Aggregate(kind, ops) => {
                let opsj: Vec<J> = ops.iter().map(|o| self.operand(o)).collect();
                let mut o = J::obj().fs("k", "aggr");
                match &**kind {
                    AggregateKind::Array(t) => {
                        o = o.fs("agg", "array").f("elem", ty_j(tcx, *t));
                    }
                    AggregateKind::Tuple => {
                        o = o.fs("agg", "tuple");
                    }
                    AggregateKind::Adt(did, vi, _args, _, active) => {
                        let def = tcx.adt_def(*did);
                        let v = def.variant(*vi);
                        let names: Vec<J> =
                            v.fields.iter().map(|f| J::s(f.name.to_string())).collect();
                        o = o
                            .fs("agg", "adt")
                            .fs("path", dp(tcx, *did))
                            .fi("variant", vi.as_u32() as i128)
                            .fs("variant_name", v.name.to_string())
                            .f("field_names", J::Arr(names));
                        if let Some(a) = active {
                            o = o.fi("union_field", a.as_u32() as i128);
                        }
                    }
                    AggregateKind::Closure(did, _) => {
                        o = o.fs("agg", "closure").fs("path", dp(tcx, *did));
                    }
                    AggregateKind::RawPtr(..) => {
                        o = o.fs("agg", "rawptr");
                    }
                    _ => {
                        o = o.fs("agg", "other");
                    }
                }
                o.f("ops", J::Arr(opsj)).done()
            }
            Rvalue::CopyForDeref(p) => J::obj()
                .fs("k", "use")
                .f("op", J::obj().f("cp", self.place(p)).done())
                .done(),
            Rvalue::ThreadLocalRef(d) => J::obj().fs("k", "tls").fs("path", dp(tcx, *d)).done(),
            other => J::obj().fs("k", "other").fs("dbg", format!("{:?}", other)).done(),
        }
    }

    fn stmt(&self, st: &mir::Statement<'tcx>) -> Option<J> {
        let sp = span_obj(self.tcx, st.source_info.span);
        match &st.kind {
            StatementKind::Assign(b) => {
                let (p, rv) = &**b;
                Some(
                    J::obj()
                        .fs("k", "assign")
                        .f("place", self.place(p))
                        .f("rv", self.rvalue(rv))
                        .f("span", sp)
                        .done(),
                )
            }
            StatementKind::SetDiscriminant { place, variant_index } => Some(
                J::obj()
                    .fs("k", "setdiscr")
                    .f("place", self.place(place))
                    .fi("variant", variant_index.as_u32() as i128)
                    .f("span", sp)
                    .done(),
            ),
            StatementKind::StorageLive(_)
            | StatementKind::StorageDead(_)
            | StatementKind::Nop
            | StatementKind::FakeRead(..)
            | StatementKind::PlaceMention(..)
            | StatementKind::AscribeUserType(..)
            | StatementKind::Coverage(..)
            | StatementKind::ConstEvalCounter
            | StatementKind::BackwardIncompatibleDropHint { .. } => None,
            other => Some(
                J::obj().fs("k", "other").fs("dbg", format!("{:?}", other)).f("span", sp).done(),
            ),
        }
    }

    fn term(&self, t: &mir::Terminator<'tcx>) -> J {
        let tcx = self.tcx;
        let sp = span_obj(tcx, t.source_info.span);
        let bbj = |b: mir::BasicBlock| J::Int(b.as_u32() as i128);
        match &t.kind {
            TerminatorKind::Goto { target } => {
                J::obj().fs("k", "goto").f("target", bbj(*target)).f("span", sp).done()
            }
            TerminatorKind::SwitchInt { discr, targets } => {
                let mut ts = Vec::new();
                for (v, b) in targets.iter() {
                    ts.push(J::Arr(vec![J::s(format!("{}", v)), bbj(b)]));
                }
                J::obj()
                    .fs("k", "switch")
                    .f("discr", self.operand(discr))
                    .f("dty", ty_j(tcx, discr.ty(self.body, tcx)))
                    .f("targets", J::Arr(ts))
                    .f("otherwise", bbj(targets.otherwise()))
                    .f("span", sp)
                    .done()
            }
            TerminatorKind::Return => J::obj().fs("k", "return").f("span", sp).done(),
            TerminatorKind::Unreachable => J::obj().fs("k", "unreachable").f("span", sp).done(),
            TerminatorKind::UnwindResume => J::obj().fs("k", "resume").f("span", sp).done(),
            TerminatorKind::UnwindTerminate(_) => J::obj().fs("k", "abort").f("span", sp).done(),
            TerminatorKind::Drop { place, target, .. } => J::obj()
                .fs("k", "drop")
                .f("place", self.place(place))
                .f("target", bbj(*target))
                .f("span", sp)
                .done(),
            TerminatorKind::Call { func, args, destination, target, fn_span, .. } => {
                let argsj: Vec<J> = args.iter().map(|a| self.operand(&a.node)).collect();
                let argtys: Vec<J> =
                    args.iter().map(|a| ty_j(tcx, a.node.ty(self.body, tcx))).collect();
                let fty = func.ty(self.body, tcx);
                let sig_ret_never = {
                    let dty = destination.ty(self.body, tcx).ty;
                    dty.is_never()
                };
                J::obj()
                    .fs("k", "call")
                    .f("func", self.operand(func))
                    .f("fty", ty_j(tcx, fty))
                    .f("args", J::Arr(argsj))
                    .f("argtys", J::Arr(argtys))
                    .f("dest", self.place(destination))
                    .f(
                        "target",
                        match target {
                            Some(b) => bbj(*b),
                            None => J::Null,
                        },
                    )
                    .fb("diverges", sig_ret_never || target.is_none())
                    .f("fn_span", span_obj(tcx, *fn_span))
                    .f("span", sp)
                    .done()
            }
            TerminatorKind::Assert { cond, expected, msg, target, .. } => {
                use rustc_middle::mir::AssertKind as AK;
                let (kind, detail) = match &**msg {
                    AK::BoundsCheck { len, index } => (
                        "BoundsCheck",
                        J::obj().f("len", self.operand(len)).f("index", self.operand(index)).done(),
                    ),
                    AK::Overflow(op, a, b) => (
                        "Overflow",
                        J::obj()
                            .fs("op", format!("{:?}", op))
                            .f("a", self.operand(a))
                            .f("b", self.operand(b))
                            .done(),
                    ),
                    AK::OverflowNeg(a) => ("OverflowNeg", J::obj().f("a", self.operand(a)).done()),
                    AK::DivisionByZero(a) => {
                        ("DivisionByZero", J::obj().f("a", self.operand(a)).done())
                    }
                    AK::RemainderByZero(a) => {
                        ("RemainderByZero", J::obj().f("a", self.operand(a)).done())
                    }
                    _ => ("Other", J::Null),
                };
                J::obj()
                    .fs("k", "assert")
                    .f("cond", self.operand(cond))
                    .fb("expected", *expected)
                    .fs("kind", kind)
                    .f("detail", detail)
                    .f("target", bbj(*target))
                    .f("span", sp)
                    .done()
            }
            TerminatorKind::FalseEdge { real_target, .. } => {
                J::obj().fs("k", "goto").f("target", bbj(*real_target)).f("span", sp).done()
            }
            TerminatorKind::FalseUnwind { real_target, .. } => {
                J::obj().fs("k", "goto").f("target", bbj(*real_target)).f("span", sp).done()
            }
            other => J::obj().fs("k", "other").fs("dbg", format!("{:?}", other)).f("span", sp).done(),
        }
    }
}
