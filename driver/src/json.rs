//! Minimal JSON value + writer (no external crates available to a rustc_private driver).

use std::fmt::Write;

#[derive(Clone, Debug)]
pub enum J {
    Null,
    Bool(bool),
    Int(i128),
    Str(String),
    Arr(Vec<J>),
    Obj(Vec<(String, J)>),
}

impl J {
    pub fn s<T: Into<String>>(x: T) -> J {
        J::Str(x.into())
    }
    pub fn obj() -> ObjB {
        ObjB(Vec::new())
    }
    pub fn write(&self, out: &mut String) {
        match self {
            J::Null => out.push_str("null"),
            J::Bool(b) => out.push_str(if *b { "true" } else { "false" }),
            J::Int(i) => {
                // Integers beyond 2^53 are emitted as strings tagged by the consumer's schema
                // (u64/u128 constants such as u64::MAX): Python reads both.
                write!(out, "{}", i).unwrap();
            }
            J::Str(s) => write_str(s, out),
            J::Arr(v) => {
                out.push('[');
                for (i, x) in v.iter().enumerate() {
                    if i > 0 {
                        out.push(',');
                    }
                    x.write(out);
                }
                out.push(']');
            }
            J::Obj(v) => {
                out.push('{');
                for (i, (k, x)) in v.iter().enumerate() {
                    if i > 0 {
                        out.push(',');
                    }
                    write_str(k, out);
                    out.push(':');
                    x.write(out);
                }
                out.push('}');
            }
        }
    }
}

fn write_str(s: &str, out: &mut String) {
    out.push('"');
    for c in s.chars() {
        match c {
            '"' => out.push_str("\\\""),
            '\\' => out.push_str("\\\\"),
            '\n' => out.push_str("\\n"),
            '\r' => out.push_str("\\r"),
            '\t' => out.push_str("\\t"),
            c if (c as u32) < 0x20 => {
                write!(out, "\\u{:04x}", c as u32).unwrap();
            }
            c => out.push(c),
        }
    }
    out.push('"');
}

pub struct ObjB(Vec<(String, J)>);

impl ObjB {
    pub fn f<T: Into<String>>(mut self, k: T, v: J) -> Self {
        self.0.push((k.into(), v));
        self
    }
    pub fn fs<T: Into<String>, U: Into<String>>(self, k: T, v: U) -> Self {
        self.f(k, J::Str(v.into()))
    }
    pub fn fi<T: Into<String>>(self, k: T, v: i128) -> Self {
        self.f(k, J::Int(v))
    }
    pub fn fb<T: Into<String>>(self, k: T, v: bool) -> Self {
        self.f(k, J::Bool(v))
    }
    pub fn done(self) -> J {
        J::Obj(self.0)
    }
}
