"""R-FORWARD (C20), R-RAYON (C19), R-SERDE (C18): ingestion paths, delegation, parallel wiring and
serialisation structure."""
import re

import fnode as F
from lin import Lin, simp
from machine import (Machine, Config, Cell, VStruct, VTuple, VArray, VRef, VOpaque, VModel, VFn, deep, explore,
                     is_float, is_int, PathEnd, Unsupported, SYM_HI)
from scen import (Est, Run, Alg, leaves, leaf_map, show_val, call, site, is_debug_only, pc_show, ESTIMATE, MERGE)
import rules as R

FROM_ITER = "core::iter::traits::collect::FromIterator"
EXTEND = "core::iter::traits::collect::Extend"
FROM_PAR = "rayon::iter::FromParallelIterator"


def impls_of_trait(db, est, trait):
    out = []
    for i in db.impl_of.get((trait, est.path), []):
        out.append(i)
    return out


def item_values(m, v):
    """item of an ingestion iterator -> list of add() arguments (dereferenced, tuple fields in order)"""
    if isinstance(v, VRef):
        v = m.read_loc(v.cell, v.path)
    if isinstance(v, VTuple):
        return [m.read_loc(x.cell, x.path) if isinstance(x, VRef) else x for x in v.fields]
    return [v]


def iterators_ended(m, val=None):
    """did every opaque input iterator report exhaustion on this path?"""
    ended = getattr(m, "iter_ended", {})
    started = {t for (t, _i, _v) in getattr(m, "items", [])} | set(getattr(m, "iter_seen", set()))
    return all(ended.get(t) for t in started) and bool(started)


def _position_dependent(db, fp, bound=8):
    """integer comparisons / remainders against a constant larger than `bound` in the body of an
    ingestion impl (and its closures): the impl treats items differently depending on how many came
    before (blocking, periodic flushes), which the comparison on a few abstract items cannot cover"""
    out = []
    for p, fn in db.fns.items():
        if not (p == fp or p.startswith(fp + "::{closure")):
            continue
        for b in fn["blocks"]:
            for s in b["stmts"]:
                rv = s.get("rv") if s.get("k") == "assign" else None
                if not rv or rv.get("k") != "bin" or rv.get("op") not in ("Eq", "Ne", "Lt", "Le", "Gt", "Ge", "Rem", "RemWithOverflow"):
                    continue
                aty = (rv.get("aty") or {}).get("s", "")
                if aty in ("f64", "f32", "bool"):
                    continue
                for side in ("a", "b"):
                    c = (rv.get(side) or {}).get("c")
                    if not c:
                        continue
                    v = c.get("uint", c.get("int"))
                    if v is None and "tyconst" in c and isinstance(c["tyconst"].get("v"), int):
                        v = c["tyconst"]["v"]
                    try:
                        v = int(v)
                    except (TypeError, ValueError):
                        continue
                    if abs(v) > bound:
                        out.append((s.get("span") or {}, rv["op"], v))
    return out


def r_forward_ingest(ctx, db, est, max_items=3, state_assume=None, ctor_args=None):
    """FromIterator / Extend impls (by value and by reference): the result is exactly
    new(); add(item) for every item in order (resp. add on the receiver for extend)"""
    n = 0
    addf = db.fns[est.add]
    for trait, kind in ((FROM_ITER, "from_iter"), (EXTEND, "extend")):
        for imp in impls_of_trait(db, est, trait):
            fp = None
            for it in imp["items"]:
                if it["name"] == kind:
                    fp = it["path"]
            if fp is None:
                continue
            n += 1
            f = db.fns[fp]
            fsite = R.fn_site(db, fp)
            item_s = imp["trait_args"][0]["s"] if imp.get("trait_args") else "?"

            for sp_, op_, v_ in _position_dependent(db, fp):
                ctx.ob("R-FORWARD", "%s<%s>:item-uniform" % (kind, item_s), fp, fsite, False,
                       "%s compares an integer with the constant %d (%s at %s): items are treated differently depending on their position "
                       "(blocking / periodic flush), which `add` in a loop never does and which the comparison on up to %d abstract items cannot cover" % (
                           kind, v_, op_, site(sp_), max_items))

            def setup(m, f=f, fp=fp, kind=kind, imp=imp):
                alg = Alg(m, est)
                src_ty = f["locals"][f["arg_count"]]["ty"]
                src = VOpaque(src_ty, "input")
                # the impl's own trait argument is the item type of its input, also where the items
                # are drawn inside a generic helper that only sees `I::Item`
                if imp.get("trait_args"):
                    m.iter_item_ty = {"input": imp["trait_args"][0]}
                if kind == "extend":
                    recv = alg.sym("self", nmin=0)
                    if state_assume:
                        state_assume(m, recv)
                    ref = Cell(deep(recv.v), root="ref")
                else:
                    recv = None
                    ref = None

                def thunk():
                    if kind == "extend":
                        call(m, fp, [VRef(recv, (), True), src])
                        got = recv
                    else:
                        got = Cell(call(m, fp, [src]), root="got")
                    items = [v for (_t, _i, v) in getattr(m, "items", [])]
                    want = ref if kind == "extend" else alg.new("want", *(ctor_args(m) if ctor_args else []))
                    for itv in items:
                        alg.add(want, *item_values(m, itv))
                    lg, lw = leaf_map(got.v), leaf_map(want.v)
                    if any(is_float(v) and v[0] == "fn" and v[1] in ("min", "max") for v in list(lg.values()) + list(lw.values())):
                        # selection estimators: compare which operand is selected, case by case
                        import minmax_rules as MM
                        lg = {k_: MM.resolve(m, v) for k_, v in lg.items()}
                        lw = {k_: MM.resolve(m, v) for k_, v in lw.items()}
                        for k_ in lg:
                            if k_ in lw and lg[k_] != lw[k_] and MM.same_number(m, lg[k_], lw[k_]):
                                lw[k_] = lg[k_]
                    return lg, lw, len(items), iterators_ended(m)
                return thunk, {}
            paths, stats = explore(db, setup, Config(release=True, max_items=max_items), 3000)
            ctx.count_run(Run(fp, paths, stats, kind))
            key = "%s<%s>" % (kind, item_s)
            for p in paths:
                pcs = pc_show(p.pc) or "unconditional"
                if p.status == "return":
                    got, want, k, ended = p.ret
                    again = [nt for nt in getattr(p.machine, "notes", []) if nt and nt[0] == "poll-after-none"]
                    if again:
                        ctx.ob("R-FORWARD", key + ":poll-after-none", fp, fsite, False,
                               "%s calls next() again at %s after the input returned None: a non-fused iterator may then yield more items, "
                               "which add() in a loop (and the sibling impls) never consume [path: %s]" % (kind, site(again[0][1]), pcs))
                    bad = R.exact_state_equal(p, got, want)
                    soft = p.inconclusive is not None
                    # an unknown condition (unmodelled predicate) inside add() is resolved independently by the impl under
                    # analysis and by the reference add loop: a difference on such a path is an artefact, not a finding
                    opaque_fork = any(isinstance(k_, tuple) and k_ and str(k_[0]).startswith("opaque") for _, _, k_ in (p.trace or []))
                    ok = not bad and ended
                    why = ""
                    if bad:
                        why = "state %s differs from new()+add(item)* : %s" % ("after extend" if kind == "extend" else "built", bad[:2])
                    elif not ended:
                        why = "returns without exhausting its input iterator (items after the %d consumed ones are ignored)" % k
                    ctx.ob("R-FORWARD", key, fp, fsite, ok,
                           ("%s with %d item(s): %s [path: %s]" % (kind, k, why, pcs)) if not ok else
                           "%s with %d item(s) equals add() in a loop, leaf by leaf, and exhausts its input [path: %s]" % (kind, k, pcs),
                           sample={"items": k, "leaves": sorted(want)[:5]},
                           inc=(not ok and ((soft and not bad and ended) or (bool(bad) and opaque_fork))))
                elif p.status == "panic":
                    # panics of add itself (e.g. arithmetic overflow of counters, add's own assertions) are
                    # not ingestion defects; an assertion of the ingestion impl's own (debug or not) is: the
                    # sibling paths (add in a loop, the other impls) do not have it
                    stack = p.info.get("stack")
                    if stack and est.add not in stack and p.info.get("kind") not in ("infeasible",):
                        ctx.ob("R-FORWARD", key + ":own-panic", fp, fsite, False,
                               "%s can panic outside add() (%s at %s): add() in a loop on the same items cannot [path: %s]" % (
                                   kind, p.info.get("kind"), site(p.info.get("span")), pcs))
                    continue
                else:
                    ctx.ob("R-FORWARD", key, fp, fsite, False, str(p.info.get("why")), inc=True)
    return n


HEADLINE = {"Mean": "mean", "Variance": "population_variance", "Skewness": "skewness", "Kurtosis": "kurtosis",
            "Min": "min", "Max": "max", "Quantile": "quantile"}


def r_estimate_headline(ctx, db, est, assume=None):
    ep = est.m("estimate", ESTIMATE)
    hl = HEADLINE.get(est.name)
    if ep is None or hl is None:
        return 0
    hp = est.m(hl, None)
    fsite = R.fn_site(db, ep)
    if hp is None:
        ctx.ob("R-FORWARD", "estimate=headline", ep, fsite, False, "headline accessor %s::%s not found" % (est.name, hl))
        return 1

    def setup(m):
        alg = Alg(m, est)
        s = alg.sym("self", nmin=0)
        if assume:
            assume(m, s)

        def thunk():
            a = call(m, ep, [VRef(s, (), False)])
            b = call(m, hp, [VRef(s, (), False)])
            return a, b
        return thunk, {}
    paths, stats = explore(db, setup, Config(release=True), 3000)
    ctx.count_run(Run(ep, paths, stats, "estimate"))
    for p in paths:
        if p.status == "return":
            a, b = p.ret
            ok = R.exact_equal(p.machine, a, b)
            ctx.ob("R-FORWARD", "estimate=headline", ep, fsite, ok,
                   "estimate() %s %s() [path: %s]" % ("is exactly" if ok else "= %s differs from" % show_val(a)[:60], hl, pc_show(p.pc) or "unconditional"))
        elif p.status == "panic" and is_debug_only(p.info.get("span") or {}):
            continue
        elif p.status == "panic":
            continue
        else:
            ctx.ob("R-FORWARD", "estimate=headline", ep, fsite, False, str(p.info.get("why")), inc=True)
    return 1


def r_concatenate(ctx, db, path, spec):
    """spec: list of (field, estimator adt path, [statistics]) as written in the harness invocation"""
    cat = Est(db, path)
    if not cat.exists():
        return 0
    n = 0
    a = db.adts[path]
    fields = [f["name"] for f in a["variants"][0]["fields"]]
    ftypes = {f["name"]: f["ty"].get("path") for f in a["variants"][0]["fields"]}
    want_fields = [s[0] for s in spec]
    ctx.ob("R-FORWARD", "concatenate:fields", path, site(a["span"]), fields == want_fields and all(ftypes[f] == t for f, t, _ in spec),
           "generated struct has fields %s of types %s" % (fields, [ftypes[f] for f in fields]))
    import fnode as F

    def sub_new(m, t):
        e = Est(db, t)
        dp = e.m("default", R.DEFAULT)
        return call(m, dp, [])

    # new() and default(): field by field the underlying Default
    for ctor in ("new", "default"):
        fp = cat.m(ctor, None) if ctor == "new" else cat.m("default", R.DEFAULT)
        if fp is None:
            ctx.ob("R-FORWARD", "concatenate:%s" % ctor, path, "-", False, "%s() missing" % ctor)
            continue
        m = Machine(db, [], Config(release=True))
        v = call(m, fp, [])
        ok = isinstance(v, VStruct)
        bad = []
        if ok:
            for (fname, t, _), fv in zip(spec, v.fields):
                wantv = sub_new(m, t)
                if leaf_map(fv) != leaf_map(wantv):
                    bad.append(fname)
        n += 1
        ctx.ob("R-FORWARD", "concatenate:%s" % ctor, fp, R.fn_site(db, fp), ok and not bad,
               "%s() builds every field with the estimator's own default" % ctor if ok and not bad else "%s(): fields %s differ from the estimator's default" % (ctor, bad))
    # add: every field receives exactly one add(x)
    addp = cat.m("add", None)

    def setup(m):
        s = Cell(m.sym_value(cat.ty(), "self", None, None, 5), root="self")
        for k, v in leaves(s.v):
            if is_float(v):
                m.order.set_nan(v, False)
        ref = deep(s.v)
        x = F.atom("x")
        m.order.set_nan(x, False)

        def thunk():
            call(m, addp, [VRef(s, (), True), x])
            wants = {}
            for (fname, t, _), fv in zip(spec, ref.fields):
                e = Est(db, t)
                c = Cell(fv, root="w_" + fname)
                call(m, e.add, [VRef(c, (), True), x])
                wants[fname] = leaf_map(c.v)
            gots = {fname: leaf_map(fv) for (fname, _, _), fv in zip(spec, s.v.fields)}
            return gots, wants
        return thunk, {}
    if addp:
        paths, stats = explore(db, setup, Config(release=True), 12000)
        ctx.count_run(Run(addp, paths, stats, "cat-add"))
        for p in paths:
            if p.status == "return":
                gots, wants = p.ret
                bad = [f for f in wants if R.exact_state_equal(p, gots[f], wants[f])]
                n += 1
                ctx.ob("R-FORWARD", "concatenate:add", addp, R.fn_site(db, addp), not bad,
                       "add(x) forwards x once to every field" if not bad else "add(x): fields %s differ from a single add(x) on the underlying estimator" % bad,
                       nontrivial=True)
            elif p.status == "inconclusive":
                ctx.ob("R-FORWARD", "concatenate:add", addp, R.fn_site(db, addp), False, str(p.info.get("why")), inc=True)
    # statistics
    for fname, t, stats_ in spec:
        e = Est(db, t)
        for st in stats_:
            sp_ = cat.m(st, None)
            up = e.m(st, None)
            if sp_ is None or up is None:
                ctx.ob("R-FORWARD", "concatenate:stat:%s" % st, path, "-", False, "statistic %s missing" % st)
                continue

            def setup2(m, sp_=sp_, up=up, fname=fname):
                s = Cell(m.sym_value(cat.ty(), "self", None, None, 0), root="self")
                idx = fields.index(fname)

                def thunk():
                    a = call(m, sp_, [VRef(s, (), False)])
                    b = call(m, up, [VRef(s, (idx,), False)])
                    return a, b
                return thunk, {}
            paths, stats = explore(db, setup2, Config(release=True), 3000)
            ctx.count_run(Run(sp_, paths, stats, "cat-stat"))
            for p in paths:
                if p.status == "return":
                    a, b = p.ret
                    n += 1
                    ok = R.exact_equal(p.machine, a, b)
                    ctx.ob("R-FORWARD", "concatenate:stat:%s" % st, sp_, R.fn_site(db, sp_), ok,
                           "%s() is exactly %s::%s() of field `%s`" % (st, e.name, st, fname) if ok else "%s() = %s, underlying %s" % (st, show_val(a)[:60], show_val(b)[:60]))
                elif p.status == "inconclusive":
                    ctx.ob("R-FORWARD", "concatenate:stat:%s" % st, sp_, R.fn_site(db, sp_), False, str(p.info.get("why")), inc=True)
    return n


# ---------------------------------------------------------------------------------------------
# R-RAYON


def r_rayon(ctx, db, est, assume=None):
    n = 0
    for imp in impls_of_trait(db, est, FROM_PAR):
        fp = None
        for it in imp["items"]:
            if it["name"] == "from_par_iter":
                fp = it["path"]
        if fp is None:
            continue
        n += 1
        f = db.fns[fp]
        fsite = R.fn_site(db, fp)
        item_ty = imp["trait_args"][0]
        key = "from_par_iter<%s>" % item_ty["s"]

        def setup(m, f=f, fp=fp, item_ty=item_ty):
            alg = Alg(m, est)
            src = VOpaque(f["locals"][1]["ty"], "par_input")

            def thunk():
                call(m, fp, [src])
                rs = getattr(m, "rayon", [])
                if len(rs) != 1:
                    return {"shape": "expected exactly one reduce(), found %d" % len(rs)}
                red = rs[0]
                fold = red["src"]
                if not (isinstance(fold, VModel) and fold.kind == "par_fold"):
                    return {"shape": "reduce() is not applied to the result of fold()"}
                pit_ = fold.st["src"]
                if not (isinstance(pit_, VModel) and pit_.kind == "par_iter" and pit_.st["src"] is src):
                    return {"shape": "fold() is not applied to into_par_iter() of the input"}
                out = {"shape": None}
                new = leaf_map(alg.new("n").v)
                # identities
                out["fold_id"] = (leaf_map(m.call_closure(fold.st["identity"], [], None)), new)
                out["reduce_id"] = (leaf_map(m.call_closure(red["identity"], [], None)), new)
                # fold op: (S, item) -> S.add(item)
                S = alg.sym("S", nmin=0)
                if assume:
                    assume(m, S)
                S2 = alg.clone(S)
                item = m.sym_value(item_ty, "item")
                for v in ([item] if is_float(item) else [m.read_loc(item.cell, item.path)] if isinstance(item, VRef) else []):
                    if is_float(v):
                        m.order.set_nan(v, False)
                fitem = item
                if pit_.st.get("deref") and isinstance(item, VRef):
                    fitem = m.read_loc(item.cell, item.path)     # `.copied()`: the fold sees the items by value
                r = m.call_closure(fold.st["op"], [S.v, fitem], None)
                alg.add(S2, *item_values(m, item))
                out["fold_op"] = (leaf_map(r), leaf_map(S2.v))
                # reduce op: (A, B) -> A.merge(&B); A
                A = alg.sym("A", nmin=0)
                B = alg.sym("B", nmin=0)
                if assume:
                    assume(m, A)
                    assume(m, B)
                A2, B2 = alg.clone(A), alg.clone(B)
                r2 = m.call_closure(red["op"], [A.v, B.v], None)
                alg.merge(A2, B2)
                out["reduce_op"] = (leaf_map(r2), leaf_map(A2.v))
                return out
            return thunk, {}
        paths, stats = explore(db, setup, Config(release=True), 4000)
        ctx.count_run(Run(fp, paths, stats, "rayon"))
        for p in paths:
            pcs = pc_show(p.pc) or "unconditional"
            if p.status == "return":
                out = p.ret
                if out.get("shape"):
                    ctx.ob("R-RAYON", key + ":shape", fp, fsite, False, out["shape"])
                    continue
                ctx.ob("R-RAYON", key + ":shape", fp, fsite, True, "into_par_iter().fold(..).reduce(..)", nontrivial=False)
                for part, what in (("fold_id", "fold identity is new()"), ("reduce_id", "reduce identity is new()"),
                                   ("fold_op", "fold operation is exactly one add(item)"), ("reduce_op", "reduce operation is a.merge(&b); a")):
                    got, want = out[part]
                    bad = R.exact_state_equal(p, got, want)
                    ctx.ob("R-RAYON", key + ":" + part, fp, fsite, not bad,
                           what if not bad else "%s: violated (%s) [path: %s]" % (what, bad[:2], pcs))
            elif p.status == "panic":
                continue
            else:
                ctx.ob("R-RAYON", key, fp, fsite, False, str(p.info.get("why")), inc=True)
    return n


# ---------------------------------------------------------------------------------------------
# R-SERDE

def _is_serde(trait, name):
    return bool(trait) and trait.startswith("serde") and trait.split("::")[-1] == name


def r_serde(ctx, db, adt_path):
    adt_path = db.canon(adt_path)
    a = db.adts.get(adt_path)
    if a is None:
        return 0
    s_impl = [i for i in db.impls if _is_serde(i.get("trait"), "Serialize") and i["self_ty"].get("path") == adt_path]
    d_impl = [i for i in db.impls if _is_serde(i.get("trait"), "Deserialize") and i["self_ty"].get("path") == adt_path]
    sp = site(a["span"])
    ctx.ob("R-SERDE", "serialize-derived", adt_path, sp, len(s_impl) == 1 and s_impl[0]["derived"],
           "Serialize impl: %s" % ("derived" if s_impl and s_impl[0]["derived"] else ("hand-written" if s_impl else "missing")))
    ctx.ob("R-SERDE", "deserialize-derived", adt_path, sp, len(d_impl) == 1 and d_impl[0]["derived"],
           "Deserialize impl: %s" % ("derived" if d_impl and d_impl[0]["derived"] else ("hand-written" if d_impl else "missing")))
    fields = a["variants"][0]["fields"]
    bad_attr = []
    if not a.get("ast_seen"):
        ctx.ob("R-SERDE", "attributes", adt_path, sp, False, "struct not found in the expanded AST (attributes not visible)", inc=True)
    for f in fields:
        for at in f.get("ast_attrs", []):
            if "serde" in at:
                body = at[at.find("serde"):]
                norm = re.sub(r"\s+", "", body)
                if norm not in ('serde(with="BigArray")]', 'serde(with="BigArray")'):
                    bad_attr.append("%s: %s" % (f["name"], at))
    for at in a.get("ast_attrs", []):
        if "serde" in at:
            bad_attr.append("container: %s" % at)
    ctx.ob("R-SERDE", "attributes", adt_path, sp, not bad_attr,
           "no serde attribute other than BigArray on arrays" if not bad_attr else "serde attributes change what is (de)serialised: %s" % bad_attr)
    # every field is written by serialize: one serialize_field call per field, with its own name
    names = []
    if s_impl:
        for it in s_impl[0]["items"]:
            fn = db.fns.get(it["path"])
            if not fn:
                continue
            for b in fn["blocks"]:
                t = b["term"]
                if t["k"] == "call" and "c" in t["func"] and "fnref" in t["func"]["c"]:
                    fr = t["func"]["c"]["fnref"]
                    if fr.get("name") == "serialize_field" or fr["fn"].endswith("::serialize_field"):
                        for arg in t["args"]:
                            if "c" in arg and "str" in arg["c"]:
                                names.append(arg["c"]["str"])
    want = [f["name"] for f in fields]
    ctx.ob("R-SERDE", "all-fields-serialized", adt_path, sp, sorted(names) == sorted(want),
           "serialize writes fields %s; the struct has %s" % (names, want))
    # field types are plain data
    badty = [f["name"] + ": " + f["ty"]["s"] for f in fields if not plain_data(db, f["ty"])]
    ctx.ob("R-SERDE", "plain-data-fields", adt_path, sp, not badty, "all fields are f64/u64/i64, arrays of them or other state structs" if not badty else "non-plain fields: %s" % badty)
    return 1


def plain_data(db, ty):
    k = ty["k"]
    if k == "prim":
        return ty["s"] in ("f64", "u64", "i64", "usize", "f32", "u32", "i32", "bool")
    if k == "array":
        return plain_data(db, ty["elem"])
    if k == "adt":
        return ty["path"] in db.adts
    return False
