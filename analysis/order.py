"""Finite order-type reasoning over float residuals (the domain behind R-ORDCASE and path pruning).

For every pair of registered nodes the store keeps the set of still-possible relations out of
{'<', '=', '>', 'u'} ('u' = unordered: at least one side is NaN).  Comparison outcomes restrict the
sets, and a worklist path-consistency closure propagates transitivity.  A comparison whose outcome
is the same under every remaining relation is *decided*; otherwise the evaluator forks.

Storage is sparse: only pairs that were ever constrained are stored; everything else follows from
the per-node NaN flags.
"""
import math

from fnode import is_lit, litval

ALL = frozenset("<=>u")
ORD = frozenset("<=>")
U = frozenset("u")
_LEU = frozenset("<=u")
_GEU = frozenset(">=u")

TRUTH = {
    "Lt": {"<": True, "=": False, ">": False, "u": False},
    "Le": {"<": True, "=": True, ">": False, "u": False},
    "Gt": {"<": False, "=": False, ">": True, "u": False},
    "Ge": {"<": False, "=": True, ">": True, "u": False},
    "Eq": {"<": False, "=": True, ">": False, "u": False},
    "Ne": {"<": True, "=": False, ">": True, "u": True},
}

FLIP = {"<": ">", ">": "<", "=": "=", "u": "u"}
_FLIPSET = {}


def flipset(r):
    f = _FLIPSET.get(r)
    if f is None:
        f = frozenset(FLIP[x] for x in r)
        _FLIPSET[r] = f
    return f


_COMP = {
    ("<", "<"): "<", ("<", "="): "<", ("=", "<"): "<",
    (">", ">"): ">", (">", "="): ">", ("=", ">"): ">",
    ("=", "="): "=",
}
_COMPSET = {}


def _comp(r1, r2):
    key = (r1, r2)
    c = _COMPSET.get(key)
    if c is not None:
        return c
    if "u" in r1 or "u" in r2:
        c = ALL
    else:
        out = set()
        c = None
        for a in r1:
            for b in r2:
                x = _COMP.get((a, b))
                if x is None:
                    c = ALL
                    break
                out.add(x)
            if c is not None:
                break
        if c is None:
            c = frozenset(out)
    _COMPSET[key] = c
    return c


class Infeasible(Exception):
    pass


class OrderStore:
    def __init__(self):
        self.nodes = []
        self.idx = {}
        self.rel = {}   # (i, j), i < j -> frozenset (sparse)
        self.nan = {}   # i -> True/False (absent = unknown)
        self.adj = {}   # i -> set of j with an informative stored relation
        self.lits = []  # indices of literal nodes
        self.inf = {}   # index -> +1 / -1 for the literals +inf / -inf
        self.pending = []

    def clone(self):
        o = OrderStore()
        o.nodes = list(self.nodes)
        o.idx = dict(self.idx)
        o.rel = dict(self.rel)
        o.nan = dict(self.nan)
        o.adj = {k: set(v) for k, v in self.adj.items()}
        o.lits = list(self.lits)
        o.inf = dict(self.inf)
        o.pending = list(self.pending)
        return o

    # ---- registration
    def _reg(self, n):
        i = self.idx.get(n)
        if i is not None:
            return i
        i = len(self.nodes)
        self.nodes.append(n)
        self.idx[n] = i
        if is_lit(n):
            y = litval(n)
            self.nan[i] = math.isnan(y)
            if y == math.inf:
                self.inf[i] = 1
            elif y == -math.inf:
                self.inf[i] = -1
            for j in self.lits:
                x = litval(self.nodes[j])
                if math.isnan(x) or math.isnan(y):
                    r = U
                elif x < y:
                    r = frozenset("<")
                elif x > y:
                    r = frozenset(">")
                else:
                    r = frozenset("=")
                self.rel[(j, i)] = r
                if "u" not in r:
                    self.adj.setdefault(i, set()).add(j)
                    self.adj.setdefault(j, set()).add(i)
                    self.pending.append((i, j))
                    self.pending.append((j, i))
            self.lits.append(i)
        return i

    def _mask(self, i, j):
        a, b = self.nan.get(i), self.nan.get(j)
        if a is True or b is True:
            return U
        m = ORD if (a is False and b is False) else ALL
        # every non-NaN value is <= +inf and >= -inf
        ii, ij = self.inf.get(i), self.inf.get(j)
        if ij == 1 and ii is None:
            m = m & _LEU
        elif ij == -1 and ii is None:
            m = m & _GEU
        if ii == 1 and ij is None:
            m = m & _GEU
        elif ii == -1 and ij is None:
            m = m & _LEU
        return m

    def _geti(self, i, j):
        if i < j:
            r = self.rel.get((i, j))
            m = self._mask(i, j)
            return m if r is None else (r & m)
        r = self.rel.get((j, i))
        m = self._mask(i, j)
        return m if r is None else (flipset(r) & m)

    def get(self, a, b):
        i, j = self._reg(a), self._reg(b)
        if self.pending:
            self._flush()
        if i == j:
            st = self.nan.get(i)
            if st is False:
                return frozenset("=")
            if st is True:
                return U
            return frozenset("=u")
        r = self._geti(i, j)
        if not r:
            raise Infeasible()
        return r

    def _set(self, i, j, r):
        """intersect relation (i, j) with r; returns True when it shrank"""
        if i == j:
            return False
        if i > j:
            i, j = j, i
            r = flipset(r)
        old = self._geti(i, j)
        new = old & r
        if not new:
            raise Infeasible()
        if new == old:
            return False
        self.rel[(i, j)] = new
        if not (new >= ORD):
            self.adj.setdefault(i, set()).add(j)
            self.adj.setdefault(j, set()).add(i)
        self.pending.append((i, j))
        self.pending.append((j, i))
        if "u" not in new:
            self._mark_nan(i, False)
            self._mark_nan(j, False)
        return True

    def _mark_nan(self, i, v):
        old = self.nan.get(i)
        if old is not None:
            if old != v:
                raise Infeasible()
            return
        self.nan[i] = v
        for j in self.adj.get(i, ()):
            if not self._geti(i, j):
                raise Infeasible()
            self.pending.append((i, j))
            self.pending.append((j, i))

    def _flush(self):
        guard = 0
        while self.pending:
            guard += 1
            if guard > 500000:
                self.pending = []
                break
            i, j = self.pending.pop()
            rij = self._geti(i, j)
            if not rij:
                raise Infeasible()
            if "u" in rij or rij >= ORD:
                continue
            for k in list(self.adj.get(j, ())):
                if k == i:
                    continue
                rjk = self._geti(j, k)
                if "u" in rjk or rjk >= ORD:
                    continue
                c = _comp(rij, rjk)
                if c != ALL:
                    self._set(i, k, c)

    # ---- queries
    def decide(self, op, a, b):
        r = self.get(a, b)
        tr = TRUTH[op]
        t = None
        for x in r:
            v = tr[x]
            if t is None:
                t = v
            elif t != v:
                return None
        return t

    def assume(self, op, a, b, truth):
        i, j = self._reg(a), self._reg(b)
        tr = TRUTH[op]
        if i == j:
            r = self.get(a, b)
            keep = frozenset(x for x in r if tr[x] == truth)
            if not keep:
                raise Infeasible()
            if keep == frozenset("="):
                self.set_nan(a, False)
            elif keep == U:
                self.set_nan(a, True)
            return
        keep = frozenset(x for x in ALL if tr[x] == truth)
        self._set(i, j, keep)
        self._flush()

    def set_nan(self, a, v):
        i = self._reg(a)
        self._mark_nan(i, v)
        self._flush()

    def nan_status(self, a):
        i = self._reg(a)
        return self.nan.get(i)

    def relation(self, a, b):
        return "".join(sorted(self.get(a, b)))
