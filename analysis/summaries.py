"""Library summaries (DESIGN §3.4): the complete list of non-local callees the evaluator models.

Each handler: h(machine, fnref, args, term, span) -> value.  Anything not listed here is an
*unmodelled call*: it returns an opaque value, havocs what it can reach through `&mut`, and any
obligation that depends on the result becomes INCONCLUSIVE.
"""
import fnode as F
from lin import Lin, simp, INF
from machine import (Cell, VStruct, VTuple, VArray, VRef, VOpaque, VModel, VFn, UNIT, deep, PathEnd,
                     Unsupported, is_float, is_int, is_cond, INT_RANGE)
from order import Infeasible

OPTION = "core::option::Option"
RESULT = "core::result::Result"
ORDERING = "core::cmp::Ordering"

USED = set()


def some(v):
    return VStruct(OPTION, 1, [v], ["0"], "Some")


def none():
    return VStruct(OPTION, 0, [], [], "None")


def ok(v):
    return VStruct(RESULT, 0, [v], ["0"], "Ok")


def err(v):
    return VStruct(RESULT, 1, [v], ["0"], "Err")


def ordering(k):  # -1 Less, 0 Equal, 1 Greater ; variant indices 0,1,2
    return VStruct(ORDERING, k + 1, [], [], ["Less", "Equal", "Greater"][k + 1])


def load(m, r):
    """dereference a VRef (or pass a value through)"""
    if isinstance(r, VRef):
        if r.lo is not None:
            return r
        return m.read_loc(r.cell, r.path)
    return r


def slice_elems(m, r):
    """list of (cell, path) for the elements of a slice / array reference"""
    if isinstance(r, VRef):
        tgt = m.read_loc(r.cell, r.path)
        if not isinstance(tgt, VArray):
            raise Unsupported("slice view of %r" % type(tgt).__name__)
        lo, hi = (r.lo, r.hi) if r.lo is not None else (0, len(tgt.elems))
        return [(r.cell, r.path + (i,)) for i in range(lo, hi)], r.mut
    raise Unsupported("slice of %r" % type(r).__name__)


# ---------------------------------------------------------------------------------------------
# Option / Result


def option_unwrap(m, ref, args, t, sp):
    v = args[0]
    if isinstance(v, VStruct):
        if v.variant == 1:
            return v.fields[0]
        raise PathEnd("panic", {"kind": "unwrap-none", "span": sp, "fn": m.stack[-1] if m.stack else None,
                                "stack": list(m.stack)})
    m.mark_inconclusive("unwrap of unmodelled Option", sp)
    return VOpaque("?", m.new_name("unwrap"))


def option_map(m, ref, args, t, sp):
    v, clo = args
    if isinstance(v, VStruct):
        if v.variant == 0:
            return none()
        return some(m.call_closure(clo, [v.fields[0]], sp))
    m.mark_inconclusive("map of unmodelled Option", sp)
    return VOpaque("?", m.new_name("map"))


def result_unwrap(m, ref, args, t, sp):
    v = args[0]
    if isinstance(v, VStruct):
        if v.variant == 0:
            return v.fields[0]
        raise PathEnd("panic", {"kind": "unwrap-err", "span": sp, "fn": m.stack[-1] if m.stack else None,
                                "stack": list(m.stack)})
    return VOpaque("?", m.new_name("unwrap"))


# ---------------------------------------------------------------------------------------------
# numeric conversions


def to_f64(m, ref, args, t, sp):
    v = load(m, args[0])
    if is_int(v):
        return some(F.i2f(v))
    return some(("opq", m.new_name("to_f64")))


def conv_int_int(m, ref, args, t, sp):
    # easy_cast::Conv between integer types: panics when out of range
    v = simp(args[0])
    full = ref.get("resolved", ref["full"])
    # `<impl Conv<SRC> for DST>::conv`
    import re
    mm = re.search(r"Conv<(\w+)> for (\w+)>", full)
    dst = mm.group(2) if mm else None
    if dst == "f64":
        return F.i2f(v) if is_int(v) else ("opq", m.new_name("conv"))
    if dst in INT_RANGE and is_int(v):
        lo, hi = INT_RANGE[dst]
        c = ("ovf", Lin.lift(v), lo, hi) if not isinstance(v, int) else (not (lo <= v <= hi))
        if m.truth(c, sp, "conv"):
            raise PathEnd("panic", {"kind": "easy_cast-range", "span": sp, "fn": m.stack[-1] if m.stack else None,
                                    "stack": list(m.stack)})
        return v
    return VOpaque("?", m.new_name("conv"))


def conv_nearest(m, ref, args, t, sp):
    # easy_cast::ConvFloat::conv_nearest(f64) -> int : round to nearest, panics if out of range/NaN
    v = args[0]
    full = ref.get("resolved", ref["full"])
    import re
    mm = re.search(r"ConvFloat<f64> for (\w+)>", full)
    dst = mm.group(1) if mm else "i64"
    lo, hi = INT_RANGE.get(dst, (-INF, INF))
    if is_float(v) and F.is_lit(v):
        x = F.litval(v)
        if x != x or not (lo <= round(x) <= hi):
            raise PathEnd("panic", {"kind": "easy_cast-range", "span": sp, "fn": m.stack[-1] if m.stack else None,
                                    "stack": list(m.stack)})
        return int(round(x))
    # symbolic: the result is an integer tied to the float by name; keep the link for D1 via f2i
    if is_float(v) and v[0] == "fn" and v[1] == "signum":
        # signum is +-1 (NaN excluded by the caller's guards): fork on the sign
        arg = v[2]
        tpos = m.truth(("fcmp", "Ge", arg, F.ZERO), sp, "signum")
        return 1 if tpos else -1
    cache = getattr(m, "f2i_cache", None)
    if cache is None:
        cache = m.f2i_cache = {}
    if (dst, v) in cache:
        return cache[(dst, v)]
    b = m.float_int_bounds(v) if hasattr(m, "float_int_bounds") else None
    blo, bhi = b if b else (lo, hi)
    # out-of-range is a potential panic
    if blo < lo or bhi > hi:
        m.notes.append(("conv_nearest-range-unproved", sp))
    s = m.ienv.new_sym("nearest", max(lo, blo), min(hi, bhi))
    m.f2i_links = getattr(m, "f2i_links", {})
    m.f2i_links[s.key()] = v
    cache[(dst, v)] = s
    return s


def num_pow(m, ref, args, t, sp):
    # num_traits::pow(base, exp: usize)
    b, e = args
    e = simp(e)
    if is_float(b) and isinstance(e, int):
        if e == 0:
            return F.ONE
        r = b
        for _ in range(e - 1):
            r = F.mk("mul", r, b, m.fctx)
        return r
    return ("opq", m.new_name("pow"))


def float_fn1(name):
    def h(m, ref, args, t, sp):
        v = load(m, args[0])
        if is_float(v):
            return F.fn(name, v)
        return ("opq", m.new_name(name))
    return h


def float_signum(m, ref, args, t, sp):
    v = load(m, args[0])
    if is_float(v):
        if F.is_lit(v):
            return F.fn("signum", v)
        if m.order.decide("Gt", v, F.ZERO) is True:
            return F.lit(1.0)
        if m.order.decide("Lt", v, F.ZERO) is True:
            return F.lit(-1.0)
        return F.fn("signum", v)
    return ("opq", m.new_name("signum"))


def float_powf(m, ref, args, t, sp):
    a, b = args
    if is_float(a) and is_float(b):
        return F.fn("powf", a, b)
    return ("opq", m.new_name("powf"))


def float_minmax(name):
    neutral = F.INF if name == "min" else F.NINF

    def h(m, ref, args, t, sp):
        a, b = load(m, args[0]), load(m, args[1])
        if is_float(a) and is_float(b):
            # min(x, +inf) = x and max(x, -inf) = x exactly when x is not NaN (IEEE minNum/maxNum);
            # when x is NaN the other operand (the neutral literal) is returned
            if b == neutral and not F.is_lit(a):
                st = m.order.nan_status(a)
                if st is False:
                    return a
            if a == neutral and not F.is_lit(b):
                st = m.order.nan_status(b)
                if st is False:
                    return b
            if a == b and m.order.nan_status(a) is False:
                return a
            return F.fn(name, a, b)
        return ("opq", m.new_name(name))
    return h


def float_minimum(name):
    """IEEE 754-2019 minimum/maximum (`f64::minimum`, unstable): NaN if either operand is NaN, else min/max"""
    base = float_minmax(name)

    def h(m, ref, args, t, sp):
        a, b = load(m, args[0]), load(m, args[1])
        if is_float(a) and is_float(b):
            for v in (a, b):
                if F.is_lit(v):
                    if F.is_nan_lit(v):
                        return F.NAN
                elif m.truth(("isnan", v), sp, "minimum"):
                    return F.NAN
            return base(m, ref, [a, b], t, sp)
        return ("opq", m.new_name(name))
    return h


def float_is_nan(m, ref, args, t, sp):
    v = load(m, args[0])
    if is_float(v):
        if F.is_lit(v):
            return F.is_nan_lit(v)
        return ("isnan", v)
    return ("bopq", m.new_name("is_nan"))


def float_is_finite(m, ref, args, t, sp):
    v = load(m, args[0])
    if is_float(v) and F.is_lit(v):
        x = F.litval(v)
        return x == x and abs(x) != float("inf")
    if m.cfg.finite and is_float(v):
        return True
    return ("bopq", m.new_name("is_finite"))


def float_is_infinite(m, ref, args, t, sp):
    v = load(m, args[0])
    if is_float(v) and F.is_lit(v):
        return abs(F.litval(v)) == float("inf")
    if is_float(v):
        # x is infinite iff |x| == inf : expressed through the order store
        return ("or", ("fcmp", "Eq", v, F.INF), ("fcmp", "Eq", v, F.NINF))
    return ("bopq", m.new_name("is_infinite"))


def int_abs(m, ref, args, t, sp):
    v = simp(args[0])
    if isinstance(v, int):
        return abs(v)
    lo, hi = m.ienv.bounds(v)
    if lo >= 0:
        return v
    if hi <= 0:
        return simp(-v)
    return m.ienv.new_sym("abs", 0, max(abs(lo), abs(hi)))


def cmp_min(m, ref, args, t, sp):
    a, b = args
    if is_int(a) and is_int(b):
        if m.truth(("icmp", "Le", simp(a), simp(b)), sp, "min"):
            return a
        return b
    return VOpaque("?", m.new_name("min"))


def cmp_max(m, ref, args, t, sp):
    a, b = args
    if is_int(a) and is_int(b):
        if m.truth(("icmp", "Ge", simp(b), simp(a)), sp, "max"):
            return b
        return a
    return VOpaque("?", m.new_name("max"))


def partial_cmp_f64(m, ref, args, t, sp):
    a, b = load(m, args[0]), load(m, args[1])
    if not (is_float(a) and is_float(b)):
        return VOpaque("?", m.new_name("partial_cmp"))
    # None iff unordered
    if m.truth(("fcmp", "Lt", a, b), sp, "partial_cmp"):
        return some(ordering(-1))
    if m.truth(("fcmp", "Gt", a, b), sp, "partial_cmp"):
        return some(ordering(1))
    if m.truth(("fcmp", "Eq", a, b), sp, "partial_cmp"):
        return some(ordering(0))
    return none()


def total_cmp_f64(m, ref, args, t, sp):
    """f64::total_cmp: the IEEE totalOrder.  It distinguishes -0.0 from +0.0 and orders NaNs by
    sign; the abstract domain tracks neither sign, so for numerically equal operands that may be
    zero, and for NaN operands, every outcome the signs allow is explored."""
    a, b = load(m, args[0]), load(m, args[1])
    if not (is_float(a) and is_float(b)):
        return VOpaque("?", m.new_name("total_cmp"))
    na = m.truth(("isnan", a), sp, "total_cmp")
    nb = m.truth(("isnan", b), sp, "total_cmp")
    if na or nb:
        c = m.choose(2, ("total_cmp-nan-sign", sp))
        return ordering(-1 if c == 0 else 1)
    if m.truth(("fcmp", "Lt", a, b), sp, "total_cmp"):
        return ordering(-1)
    if m.truth(("fcmp", "Gt", a, b), sp, "total_cmp"):
        return ordering(1)
    # numerically equal: signed zeros differ under totalOrder
    may_zero = m.order.decide("Ne", a, F.ZERO) is not True
    if may_zero and not (F.is_lit(a) and F.is_lit(b)):
        c = m.choose(3, ("total_cmp-zero-sign", sp))
        if c > 0:
            try:
                m.order.assume("Eq", a, F.ZERO, True)
            except Infeasible:
                raise PathEnd("infeasible")
            m.pc.append(("fcmp", "Eq", a, F.ZERO, True, sp))
            m.notes.append(("signed-zero", sp))
            return ordering(-1 if c == 1 else 1)
    return ordering(0)


def partial_eq_ref(m, ref, args, t, sp):
    a, b = load(m, args[0]), load(m, args[1])
    a, b = load(m, a), load(m, b)
    return value_eq(m, a, b, sp)


def value_eq(m, a, b, sp):
    if is_float(a) and is_float(b):
        return ("fcmp", "Eq", a, b)
    if is_int(a) and is_int(b):
        a, b = simp(a), simp(b)
        if isinstance(a, int) and isinstance(b, int):
            return a == b
        return ("icmp", "Eq", a, b)
    if isinstance(a, bool) and isinstance(b, bool):
        return a == b
    if isinstance(a, VStruct) and isinstance(b, VStruct) and a.path == b.path and a.path in (OPTION, RESULT):
        # derived equality of Option/Result: same variant and equal payloads
        if a.variant != b.variant:
            return False
        if not a.fields:
            return True
        x, y = a.fields[0], b.fields[0]
        while isinstance(x, VRef):
            x = load(m, x)
        while isinstance(y, VRef):
            y = load(m, y)
        return value_eq(m, x, y, sp)
    return ("bopq", m.new_name("eq"))


def partial_ne_ref(m, ref, args, t, sp):
    e = partial_eq_ref(m, ref, args, t, sp)
    if isinstance(e, bool):
        return not e
    return ("not", e)


# ---------------------------------------------------------------------------------------------
# clone


def clone_any(m, ref, args, t, sp):
    v = load(m, args[0])
    if isinstance(v, VStruct) and v.path in m.db.adts:
        # a local type whose Clone impl is in the facts: handled by `invoke` through resolution;
        # reaching here means the impl is not local (e.g. generic): structural copy
        return deep(v)
    return deep(v)


# ---------------------------------------------------------------------------------------------
# ranges and iterators


def range_incl_new(m, ref, args, t, sp):
    return VStruct("core::ops::range::RangeInclusive", 0, [args[0], args[1], False], ["start", "end", "exhausted"], "RangeInclusive")


def range_incl_contains(m, ref, args, t, sp):
    r, x = load(m, args[0]), load(m, args[1])
    if not isinstance(r, VStruct):
        return ("bopq", m.new_name("contains"))
    lo, hi = r.fields[0], r.fields[1]
    if is_float(x):
        if is_float(lo) and is_float(hi) and F.is_lit(lo) and F.is_lit(hi) and F.litval(lo) == F.litval(hi):
            return ("fcmp", "Eq", x, hi)        # `(-0.0..=0.0).contains(&x)` is `x == 0.0`
        return ("and", ("fcmp", "Le", lo, x), ("fcmp", "Le", x, hi))
    if is_int(x):
        return ("and", ("icmp", "Le", simp(lo), simp(x)), ("icmp", "Le", simp(x), simp(hi)))
    return ("bopq", m.new_name("contains"))


def range_contains(m, ref, args, t, sp):
    r, x = load(m, args[0]), load(m, args[1])
    if not isinstance(r, VStruct):
        return ("bopq", m.new_name("contains"))
    lo, hi = r.fields[0], r.fields[1]
    if is_float(x):
        return ("and", ("fcmp", "Le", lo, x), ("fcmp", "Lt", x, hi))
    if is_int(x):
        return ("and", ("icmp", "Le", simp(lo), simp(x)), ("icmp", "Lt", simp(x), simp(hi)))
    return ("bopq", m.new_name("contains"))


def into_iter(m, ref, args, t, sp):
    v = args[0]
    if isinstance(v, VModel):
        return v
    if isinstance(v, VStruct) and v.path.startswith("core::ops::range::Range"):
        return v
    if isinstance(v, VStruct) and m.db.find_impl_method("core::iter::traits::iterator::Iterator", v.path, "next"):
        return v  # `impl<I: Iterator> IntoIterator for I` is the identity
    if isinstance(v, VRef):
        tgt = m.read_loc(v.cell, v.path)
        if isinstance(tgt, VArray):
            return VModel("slice_iter", ref=v if v.lo is not None else VRef(v.cell, v.path, v.mut, 0, len(tgt.elems)), pos=0)
        if isinstance(tgt, VStruct):
            p = m.db.find_impl_method("core::iter::traits::collect::IntoIterator", "&" + tgt.path, "into_iter")
            if p:
                return m.call_local(m.db.fns[p], [v], sp)
        if v.mut and isinstance(tgt, VModel):
            # `&mut I` is itself an iterator (`Iterator::by_ref`): the model object is shared, so the
            # items consumed through the reference are gone from the original too
            return tgt
    if isinstance(v, VArray):
        c = Cell(v)
        return VModel("array_iter", cell=c, pos=0)
    if isinstance(v, VOpaque):
        seen = getattr(m, "iter_seen", None)
        if seen is None:
            seen = m.iter_seen = set()
        seen.add(str(v.tag))
        return VModel("opaque_iter", tag=str(v.tag), count=0)
    raise Unsupported("into_iter of %r" % (v,))


def slice_iter(m, ref, args, t, sp):
    v = args[0]
    tgt = m.read_loc(v.cell, v.path)
    if isinstance(tgt, VArray):
        r = v if v.lo is not None else VRef(v.cell, v.path, v.mut, 0, len(tgt.elems))
        return VModel("slice_iter", ref=VRef(r.cell, r.path, False, r.lo, r.hi), pos=0)
    return VModel("opaque_iter", tag=m.new_name("slice"), count=0)


def slice_iter_mut(m, ref, args, t, sp):
    v = args[0]
    tgt = m.read_loc(v.cell, v.path)
    if isinstance(tgt, VArray):
        r = v if v.lo is not None else VRef(v.cell, v.path, True, 0, len(tgt.elems))
        return VModel("slice_iter", ref=VRef(r.cell, r.path, True, r.lo, r.hi), pos=0)
    raise Unsupported("iter_mut of non-array")


def slice_len(m, ref, args, t, sp):
    v = args[0]
    if isinstance(v, VRef):
        if v.lo is not None:
            return v.hi - v.lo
        tgt = m.read_loc(v.cell, v.path)
        if isinstance(tgt, VArray):
            return len(tgt.elems)
    return m.ienv.new_sym("len", 0, 2**62)


def slice_split_first(m, ref, args, t, sp):
    v = args[0]
    if isinstance(v, VRef) and v.lo is not None:
        if v.hi - v.lo == 0:
            return none()
        first = VRef(v.cell, v.path + (v.lo,), v.mut)
        rest = VRef(v.cell, v.path, v.mut, v.lo + 1, v.hi)
        return some(VTuple([first, rest]))
    m.mark_inconclusive("split_first of unmodelled slice", sp)
    return VOpaque("?", m.new_name("split_first"))


def slice_first_last(which):
    def h(m, ref, args, t, sp):
        v = args[0]
        if isinstance(v, VRef):
            if v.lo is None:
                tgt = m.read_loc(v.cell, v.path)
                v = VRef(v.cell, v.path, v.mut, 0, len(tgt.elems))
            if v.hi - v.lo == 0:
                return none()
            i = v.lo if which == "first" else v.hi - 1
            return some(VRef(v.cell, v.path + (i,), v.mut))
        return VOpaque("?", m.new_name(which))
    return h


def index_call(mutable):
    def h(m, ref, args, t, sp):
        base, idx = args
        if not isinstance(base, VRef):
            raise Unsupported("index of %r" % (base,))
        if base.lo is None:
            tgt = m.read_loc(base.cell, base.path)
            if not isinstance(tgt, VArray):
                raise Unsupported("index into %r" % type(tgt).__name__)
            lo, hi = 0, len(tgt.elems)
        else:
            lo, hi = base.lo, base.hi
        n = hi - lo
        if is_int(idx):
            i = m.concrete_index(idx, sp)
            if not (0 <= i < n):
                raise PathEnd("panic", {"kind": "index-oob", "span": sp, "fn": m.stack[-1] if m.stack else None,
                                        "stack": list(m.stack)})
            return VRef(base.cell, base.path + (lo + i,), mutable)
        if isinstance(idx, VStruct):
            nm = idx.path.split("::")[-1]
            if nm == "RangeFull":
                a, b = 0, n
            elif nm == "RangeFrom":
                a, b = m.concrete_index(idx.fields[0], sp), n
            elif nm == "RangeTo":
                a, b = 0, m.concrete_index(idx.fields[0], sp)
            elif nm == "Range":
                a, b = m.concrete_index(idx.fields[0], sp), m.concrete_index(idx.fields[1], sp)
            elif nm == "RangeInclusive":
                a, b = m.concrete_index(idx.fields[0], sp), m.concrete_index(idx.fields[1], sp) + 1
            elif nm == "RangeToInclusive":
                a, b = 0, m.concrete_index(idx.fields[0], sp) + 1
            else:
                raise Unsupported("index by " + idx.path)
            if not (0 <= a <= b <= n):
                raise PathEnd("panic", {"kind": "slice-oob", "span": sp, "fn": m.stack[-1] if m.stack else None,
                                        "stack": list(m.stack)})
            return VRef(base.cell, base.path, mutable, lo + a, lo + b)
        raise Unsupported("index by %r" % (idx,))
    return h


def iter_enumerate(m, ref, args, t, sp):
    return VModel("enumerate", inner=iter_of(m, args[0], sp), count=0)


def iter_zip(m, ref, args, t, sp):
    return VModel("zip", a=iter_of(m, args[0], sp), b=iter_of(m, args[1], sp))


def iter_rev(m, ref, args, t, sp):
    it = iter_of(m, args[0], sp)
    return VModel("rev", inner=it)


def iter_copied(m, ref, args, t, sp):
    return VModel("copied", inner=iter_of(m, args[0], sp))


def iter_map(m, ref, args, t, sp):
    return VModel("map", inner=iter_of(m, args[0], sp), f=args[1])


def iter_take(m, ref, args, t, sp):
    return VModel("take", inner=iter_of(m, args[0], sp), n=args[1])


def iter_skip(m, ref, args, t, sp):
    return VModel("skip", inner=iter_of(m, args[0], sp), n=args[1], done=False)


def iter_of(m, v, sp):
    if isinstance(v, VModel):
        return v
    r = into_iter(m, None, [v], None, sp)
    if isinstance(r, VStruct):
        # a by-value iterator struct (a range, or a crate-local `impl Iterator`) used as the inner
        # iterator of an adaptor: keep it in a cell and advance it through its own `next`
        return VModel("user_iter", cell=Cell(r))
    return r


def fresh_item(m, it, t):
    """fresh abstract item for an opaque iterator; the item type comes from the call's destination"""
    return None


def item_type_of_dest(m, t):
    """Option<Item> destination type -> Item type JSON (looked up from the current frame's fn)"""
    return None


def model_next(m, it, sp, item_ty=None):
    """advance iterator model `it`; returns the item value or None when exhausted"""
    k = it.kind
    st = it.st
    if k == "slice_iter":
        r = st["ref"]
        n = r.hi - r.lo
        if st["pos"] >= n:
            return None
        i = r.lo + st["pos"]
        st["pos"] += 1
        return VRef(r.cell, r.path + (i,), r.mut)
    if k == "array_iter":
        arr = st["cell"].v
        if st["pos"] >= len(arr.elems):
            return None
        v = arr.elems[st["pos"]]
        st["pos"] += 1
        return v
    if k == "enumerate":
        x = model_next(m, st["inner"], sp, item_ty["elems"][1] if item_ty and item_ty.get("k") == "tuple" else None)
        if x is None:
            return None
        c = st["count"]
        st["count"] = c + 1
        return VTuple([c, x])
    if k == "zip":
        ta = item_ty["elems"][0] if item_ty and item_ty.get("k") == "tuple" else None
        tb = item_ty["elems"][1] if item_ty and item_ty.get("k") == "tuple" else None
        x = model_next(m, st["a"], sp, ta)
        if x is None:
            return None
        y = model_next(m, st["b"], sp, tb)
        if y is None:
            return None
        return VTuple([x, y])
    if k == "rev":
        inner = st["inner"]
        if inner.kind == "slice_iter":
            r = inner.st["ref"]
            if inner.st["pos"] >= r.hi - r.lo:
                return None
            # take from the back: shrink hi
            i = r.hi - 1
            inner.st["ref"] = VRef(r.cell, r.path, r.mut, r.lo, r.hi - 1)
            return VRef(r.cell, r.path + (i,), r.mut)
        if isinstance(inner, VStruct):
            raise Unsupported("rev of range")
        raise Unsupported("rev of " + inner.kind)
    if k == "user_iter":
        c = st["cell"]
        o = iter_next(m, None, [VRef(c, (), True)], None, sp)
        return o.fields[0] if o.variant == 1 else None
    if k == "copied":
        x = model_next(m, st["inner"], sp, {"k": "ref", "mut": False, "to": item_ty} if item_ty else None)
        if x is None:
            return None
        return deep(load(m, x))
    if k == "map":
        x = model_next(m, st["inner"], sp, closure_arg_ty(m, st["f"], 0))
        if x is None:
            return None
        return m.call_closure(st["f"], [x], sp)
    if k == "take":
        n = simp(st["n"])
        if isinstance(n, int):
            if n <= 0:
                return None
            st["n"] = n - 1
            return model_next(m, st["inner"], sp, item_ty)
        raise Unsupported("take(symbolic)")
    if k == "skip":
        if not st["done"]:
            n = simp(st["n"])
            if not isinstance(n, int):
                raise Unsupported("skip(symbolic)")
            for _ in range(n):
                if model_next(m, st["inner"], sp, item_ty) is None:
                    break
            st["done"] = True
        return model_next(m, st["inner"], sp, item_ty)
    if k == "opaque_iter":
        seen = getattr(m, "iter_seen", None)
        if seen is None:
            seen = m.iter_seen = set()
        seen.add(st["tag"])
        ended = getattr(m, "iter_ended", None)
        if ended is None:
            ended = m.iter_ended = {}
        if ended.get(st["tag"]):
            # polled again after it returned None: a non-fused iterator may yield further items here,
            # which `for` (and an add loop) would never see — recorded for R-FORWARD
            m.notes.append(("poll-after-none", sp, st["tag"], m.stack[-1] if m.stack else None))
            return None
        if st["count"] >= m.cfg.max_items:
            ended[st["tag"]] = True
            return None
        c = m.choose(2, ("iter-next", st["tag"], st["count"], sp))
        if c == 1:
            st["count"] = m.cfg.max_items  # exhausted from now on (fused view)
            ended[st["tag"]] = True
            return None
        idx = st["count"]
        st["count"] += 1
        known = getattr(m, "iter_item_ty", {}).get(st["tag"])
        if known is not None and (item_ty is None or item_ty.get("k") in ("param", "proj", "alias", "opaque", "other")):
            item_ty = known
        if item_ty is None:
            return VOpaque("?", "%s#%d" % (st["tag"], idx))
        v = m.sym_value(item_ty, "%s#%d" % (st["tag"], idx))
        m.items = getattr(m, "items", [])
        m.items.append((st["tag"], idx, v))
        return v
    raise Unsupported("next on model " + k)


def dest_item_ty(m, t):
    """type JSON of Item for a call whose destination has type Option<Item>"""
    fn = m.db.fns.get(m.stack[-1]) if m.stack else None
    if fn is None or t is None or t.get("dest") is None:
        return None
    d = t["dest"]
    if d["p"]:
        return None
    ty = fn["locals"][d["l"]]["ty"]
    if ty["k"] == "adt" and ty["path"] == OPTION:
        args = [a for a in ty["args"] if a.get("k") != "region"]
        if args:
            return args[0]
    return None


def iter_next(m, ref, args, t, sp):
    r = args[0]
    it = load(m, r)
    if isinstance(it, VStruct) and it.path.endswith("::Range"):
        s, e = simp(it.fields[0]), simp(it.fields[1])
        if m.truth(("icmp", "Lt", s, e) if not (isinstance(s, int) and isinstance(e, int)) else s < e, sp, "range"):
            it.fields[0] = simp(Lin.lift(s) + 1)
            return some(s)
        return none()
    if isinstance(it, VStruct) and it.path.endswith("::RangeFrom"):
        s = simp(it.fields[0])           # `n..`: never ends (overflow of the counter is out of reach of a finite input)
        it.fields[0] = simp(Lin.lift(s) + 1)
        return some(s)
    if isinstance(it, VStruct) and it.path.endswith("::RangeInclusive"):
        s, e, ex = simp(it.fields[0]), simp(it.fields[1]), it.fields[2]
        if ex:
            return none()
        lt = m.truth(("icmp", "Lt", s, e) if not (isinstance(s, int) and isinstance(e, int)) else s < e, sp, "range")
        if lt:
            it.fields[0] = simp(Lin.lift(s) + 1)
            return some(s)
        eq = m.truth(("icmp", "Eq", s, e) if not (isinstance(s, int) and isinstance(e, int)) else s == e, sp, "range")
        if eq:
            it.fields[2] = True
            return some(s)
        it.fields[2] = True
        return none()
    if isinstance(it, VModel):
        x = model_next(m, it, sp, dest_item_ty(m, t))
        return none() if x is None else some(x)
    if isinstance(it, VStruct):
        p = m.db.find_impl_method("core::iter::traits::iterator::Iterator", it.path, "next")
        if p:
            return m.call_local(m.db.fns[p], [r], sp)
    if isinstance(it, VOpaque):
        # an opaque iterator that never went through into_iter (e.g. a struct field of type T)
        mod = VModel("opaque_iter", tag=str(it.tag), count=0)
        if isinstance(r, VRef):
            m.write_loc(r.cell, r.path, mod, sp)
        x = model_next(m, mod, sp, dest_item_ty(m, t))
        return none() if x is None else some(x)
    raise Unsupported("next on %r" % (it,))


def closure_arg_ty(m, clo, idx):
    """type of the idx-th declared parameter of a closure value (to type the items of an abstract
    iterator that is consumed through for_each / fold / map)"""
    v = clo
    if isinstance(v, VRef):
        try:
            v = m.read_loc(v.cell, v.path)
        except Unsupported:
            return None
    if isinstance(v, VStruct):
        f = m.db.fns.get(v.path)
        if f is not None and f["arg_count"] >= 2 + idx:
            return f["locals"][2 + idx]["ty"]
    return None


def pull(m, itv, sp, item_ty=None):
    """generator over the remaining items of an iterator value"""
    while True:
        if isinstance(itv, VModel):
            x = model_next(m, itv, sp, item_ty)
        else:
            c = Cell(itv)
            o = iter_next(m, None, [VRef(c, (), True)], None, sp)
            x = o.fields[0] if o.variant == 1 else None
        if x is None:
            return
        yield x


def iter_size_hint(m, ref, args, t, sp):
    """(lower, Option<upper>) of an abstract iterator: any lower bound >= 0 and either no upper bound
    or any upper bound >= lower — the hint says nothing the caller may rely on for the result"""
    it = load(m, args[0]) if isinstance(args[0], VRef) else args[0]
    if isinstance(it, VModel) and it.kind == "slice_iter":
        r = it.st["ref"]
        n = r.hi - r.lo - it.st["pos"]
        return VTuple([n, some(n)])
    lo = m.ienv.new_sym("size_hint_lo", 0, 2**40)
    c = m.choose(2, ("size-hint-upper", sp))
    if c == 0:
        return VTuple([lo, none()])
    hi = m.ienv.new_sym("size_hint_hi", 0, 2**40)
    m.ienv.assume("Ge", hi, lo, True)
    return VTuple([lo, some(hi)])


def iter_sum(m, ref, args, t, sp):
    it = iter_of(m, args[0], sp) if not isinstance(args[0], VStruct) else args[0]
    tot = None
    for x in pull(m, it, sp):
        x = load(m, x)
        if tot is None:
            tot = x
        elif is_float(x):
            tot = F.mk("add", tot, x, m.fctx)
        elif is_int(x):
            tot = simp(Lin.lift(tot) + Lin.lift(x))
        else:
            return VOpaque("?", m.new_name("sum"))
    if tot is None:
        # empty: type-dependent zero
        targs = ref.get("targs", []) if ref else []
        s = " ".join(a.get("s", "") for a in targs)
        return F.ZERO if "f64" in s.split()[-1:] else 0
    if is_float(tot):
        return F.mk("add", F.ZERO, tot, m.fctx)
    return tot


def iter_for_each(m, ref, args, t, sp):
    it = iter_of(m, args[0], sp) if not isinstance(args[0], VStruct) else args[0]
    for x in pull(m, it, sp, closure_arg_ty(m, args[1], 0)):
        m.call_closure(args[1], [x], sp)
    return UNIT


def _try_ctor(m, clo):
    """(continue-constructor, is-break) of the Try type a closure returns: Result, Option or ControlFlow"""
    v = clo
    if isinstance(v, VRef):
        v = m.read_loc(v.cell, v.path)
    f = m.db.fns.get(v.path) if isinstance(v, VStruct) else None
    ty = f["locals"][0]["ty"] if f is not None else None
    path = ty.get("path") if isinstance(ty, dict) else None
    if path == RESULT:
        return ok, (lambda r: r.variant == 1)
    if path == OPTION:
        return some, (lambda r: r.variant == 0)
    if path == CONTROL_FLOW:
        return (lambda x: VStruct(CONTROL_FLOW, 0, [x], ["0"], "Continue")), (lambda r: r.variant == 1)
    raise Unsupported("try_for_each/try_fold with a closure returning %r" % (ty,))


def iter_try_for_each(m, ref, args, t, sp):
    """Iterator::try_for_each: call f on each item until it returns a residual (Err / None / Break)"""
    it = iter_of(m, load(m, args[0]) if isinstance(args[0], VRef) else args[0], sp)
    cont, is_break = _try_ctor(m, args[1])
    for x in pull(m, it, sp, closure_arg_ty(m, args[1], 0)):
        r = m.call_closure(args[1], [x], sp)
        if not isinstance(r, VStruct):
            raise Unsupported("try_for_each closure result")
        if is_break(r):
            return r
    return cont(UNIT)


def iter_try_fold(m, ref, args, t, sp):
    it = iter_of(m, load(m, args[0]) if isinstance(args[0], VRef) else args[0], sp)
    cont, is_break = _try_ctor(m, args[2])
    acc = args[1]
    for x in pull(m, it, sp, closure_arg_ty(m, args[2], 1)):
        r = m.call_closure(args[2], [acc, x], sp)
        if not isinstance(r, VStruct):
            raise Unsupported("try_fold closure result")
        if is_break(r):
            return r
        acc = r.fields[0]
    return cont(acc)


def iter_fold(m, ref, args, t, sp):
    it = iter_of(m, args[0], sp) if not isinstance(args[0], VStruct) else args[0]
    acc = args[1]
    for x in pull(m, it, sp, closure_arg_ty(m, args[2], 1)):
        acc = m.call_closure(args[2], [acc, x], sp)
    return acc


def iter_count(m, ref, args, t, sp):
    it = iter_of(m, args[0], sp)
    n = 0
    for _ in pull(m, it, sp):
        n += 1
    return n


def add_assign_ref(op):
    def h(m, ref, args, t, sp):
        lhs, rhs = args
        a = load(m, lhs)
        b = load(m, rhs)
        if is_int(a) and is_int(b):
            full = ref.get("resolved", ref["full"])
            ty = "u64"
            for cand in INT_RANGE:
                if full.startswith("<%s as" % cand):
                    ty = cand
            r = m.int_binop(op + "WithOverflow", a, b, ty, sp)
            if m.truth(r.fields[1], sp, "overflow"):
                raise PathEnd("panic", {"kind": "assert:Overflow", "span": sp, "fn": m.stack[-1] if m.stack else None,
                                        "stack": list(m.stack)})
            m.write_loc(lhs.cell, lhs.path, r.fields[0], sp)
            return UNIT
        if is_float(a) and is_float(b):
            mop = {"Add": "add", "Sub": "sub", "Mul": "mul", "Div": "div"}[op]
            m.write_loc(lhs.cell, lhs.path, F.mk(mop, a, b, m.fctx), sp)
            return UNIT
        raise Unsupported("op-assign on %r" % (a,))
    return h


def arith_ref(op):
    """<&f64 as Add<&f64>>::add and friends"""
    def h(m, ref, args, t, sp):
        a, b = load(m, args[0]), load(m, args[1])
        a, b = load(m, a), load(m, b)
        if is_float(a) and is_float(b):
            return m.binop(op, a, b, {"s": "f64"}, sp)
        if is_int(a) and is_int(b):
            full = ref.get("resolved", ref["full"])
            ty = "u64"
            for cand in INT_RANGE:
                if ("for %s>" % cand) in full or ("<%s as" % cand) in full or ("&%s" % cand) in full:
                    ty = cand
            r = m.int_binop(op + "WithOverflow", a, b, ty, sp)
            if m.truth(r.fields[1], sp, "overflow"):
                raise PathEnd("panic", {"kind": "assert:Overflow", "span": sp, "fn": m.stack[-1] if m.stack else None,
                                        "stack": list(m.stack)})
            return r.fields[0]
        return VOpaque("?", m.new_name(op))
    return h


def sort_floats(m, ref, args, t, sp):
    """float_ord::sort(&mut [f64]): permutes the slice into non-decreasing order.

    The sorted view is modelled as fresh atoms s0 <= s1 <= ... tagged with the multiset they
    permute (provenance for R-TAINT: `sorted(<source atoms>)[i]`)."""
    r = args[0]
    els, _ = slice_elems(m, r)
    src = [m.read_loc(c, p) for c, p in els]
    n = len(src)
    if n <= 1:
        return UNIT
    if all(is_float(x) and F.is_lit(x) for x in src):
        vals = sorted(src, key=lambda x: F.litval(x))
        for (c, p), v in zip(els, vals):
            m.write_loc(c, p, v, sp)
        return UNIT
    return _sorted_model(m, els, src, sp)


def _sorted_model(m, els, src, sp):
    n = len(src)
    m.sorted_sets = getattr(m, "sorted_sets", {})
    tag = None
    for t0, s0 in m.sorted_sets.items():
        if s0 == list(src):
            tag = t0
    if tag is None:
        tag = "sorted%d" % (len(m.sorted_sets) + 1)
    m.sorted_sets[tag] = list(src)
    outs = [("fn", "sorted", tag, i) + tuple(src) for i in range(n)]
    nn = [m.order.nan_status(x) for x in src]
    for (c, p), v in zip(els, outs):
        m.write_loc(c, p, v, sp)
    try:
        if all(x is False for x in nn) or m.cfg.finite:
            for v in outs:
                m.order.set_nan(v, False)
        for i in range(n - 1):
            m.order.assume("Le", outs[i], outs[i + 1], True)
        # extremes bound every source element
        for x in src:
            if m.order.nan_status(x) is False or m.cfg.finite:
                m.order.assume("Le", outs[0], x, True)
                m.order.assume("Le", x, outs[-1], True)
    except Infeasible:
        raise PathEnd("infeasible")
    return UNIT


def binary_search_by(m, ref, args, t, sp):
    """[T]::binary_search_by(f) under its documented contract.

    The slice must be sorted w.r.t. f.  Result Ok(i): f(elem i) == Equal.  Err(i): f is Less on
    [0, i) and Greater on [i, len).  Which of several Equal indices is returned is unspecified:
    every one is explored.  The comparator is *run* (abstractly) on each element the contract
    constrains, so a panic inside it (unwrap of None for NaN) is found."""
    r, clo = args
    els, _ = slice_elems(m, r)
    n = len(els)
    if m.cfg.bsearch_contract == "core":
        return _binary_search_core(m, els, clo, sp)
    # outcome choice: Ok(0..n-1), Err(0..n)
    c = m.choose(2 * n + 1, ("bsearch", sp))
    elem_ref = lambda i: VRef(els[i][0], els[i][1], False)

    def run(i):
        o = m.call_closure(clo, [elem_ref(i)], sp)
        if not isinstance(o, VStruct) or o.path != ORDERING:
            raise Unsupported("comparator did not return Ordering")
        return o.variant - 1

    # The contract's precondition is that the slice is sorted with respect to the comparator, so
    # the outcome is characterised by the comparator's value on the elements next to the returned
    # position; those are the ones the comparator is (abstractly) run on.  A panic inside the
    # comparator (e.g. unwrap of None for a NaN operand) is therefore still found.
    if c < n:
        i = c
        if run(i) != 0:
            raise PathEnd("infeasible")
        if i > 0 and run(i - 1) > 0:
            raise PathEnd("infeasible")
        if i + 1 < n and run(i + 1) < 0:
            raise PathEnd("infeasible")
        return ok(i)
    i = c - n
    if i > 0 and run(i - 1) != -1:
        raise PathEnd("infeasible")
    if i < n and run(i) != 1:
        raise PathEnd("infeasible")
    return err(i)


def _binary_search_core(m, els, clo, sp):
    """the algorithm of core::slice::binary_search_by as shipped with the installed toolchain
    (library/core/src/slice/mod.rs, rustc 1.96/1.97): used only where the documented contract
    leaves the result open (several equal elements); evidence marks it toolchain-specific"""
    size = len(els)
    if size == 0:
        return err(0)

    def f(i):
        o = m.call_closure(clo, [VRef(els[i][0], els[i][1], False)], sp)
        if not isinstance(o, VStruct) or o.path != ORDERING:
            raise Unsupported("comparator did not return Ordering")
        return o.variant - 1
    base = 0
    while size > 1:
        half = size // 2
        mid = base + half
        if f(mid) != 1:
            base = mid
        size -= half
    c = f(base)
    if c == 0:
        return ok(base)
    return err(base + (1 if c == -1 else 0))


def default_default(m, ref, args, t, sp):
    targs = ref.get("targs", [])
    if targs and targs[0].get("k") == "prim":
        s = targs[0]["s"]
        if s == "f64":
            return F.ZERO
        if s in INT_RANGE:
            return 0
        if s == "bool":
            return False
    return VOpaque("?", m.new_name("default"))


def fmt_noop(m, ref, args, t, sp):
    return VOpaque("fmt", m.new_name("fmt"))


def mem_replace(m, ref, args, t, sp):
    dst, v = args
    old = m.read_loc(dst.cell, dst.path)
    m.write_loc(dst.cell, dst.path, v, sp)
    return old


def mem_swap(m, ref, args, t, sp):
    a, b = args
    va, vb = m.read_loc(a.cell, a.path), m.read_loc(b.cell, b.path)
    m.write_loc(a.cell, a.path, vb, sp)
    m.write_loc(b.cell, b.path, va, sp)
    return UNIT


def mem_take(m, ref, args, t, sp):
    """core::mem::take: leave `Default::default()` behind, return the old value"""
    dst = args[0]
    old = m.read_loc(dst.cell, dst.path)
    if is_float(old):
        dflt = F.ZERO
    elif isinstance(old, bool):
        dflt = False
    elif is_int(old):
        dflt = 0
    elif isinstance(old, VStruct):
        p = m.db.find_impl_method("core::default::Default", old.path, "default")
        if not p or p not in m.db.fns:
            raise Unsupported("mem::take of %s" % old.path)
        dflt = m.call_local(m.db.fns[p], [], sp)
    else:
        raise Unsupported("mem::take of %r" % type(old).__name__)
    m.write_loc(dst.cell, dst.path, dflt, sp)
    return old


# rayon: the parallel pipeline is not executed; R-RAYON inspects the closures handed over.
def rayon_into_par_iter(m, ref, args, t, sp):
    if isinstance(args[0], VModel) and args[0].kind == "par_iter":
        return args[0]          # a ParallelIterator is its own IntoParallelIterator
    return VModel("par_iter", src=args[0])


def rayon_copied(m, ref, args, t, sp):
    """`.copied()` / `.cloned()` of a parallel iterator over `&f64`: the same items, by value"""
    inner = args[0]
    if isinstance(inner, VModel) and inner.kind == "par_iter" and not inner.st.get("deref"):
        return VModel("par_iter", src=inner.st["src"], deref=True)
    raise Unsupported("copied() of %r" % (inner,))


def rayon_fold(m, ref, args, t, sp):
    return VModel("par_fold", src=args[0], identity=args[1], op=args[2])


def rayon_reduce(m, ref, args, t, sp):
    m.rayon = getattr(m, "rayon", [])
    m.rayon.append({"src": args[0], "identity": args[1], "op": args[2], "span": sp})
    return VOpaque("?", m.new_name("rayon-reduce"))


BY_NAME = {
    "core::option::Option::<T>::unwrap": option_unwrap,
    "core::option::Option::<T>::expect": option_unwrap,
    "core::option::Option::<T>::map": option_map,
    "core::result::Result::<T, E>::unwrap": result_unwrap,
    "core::result::Result::<T, E>::expect": result_unwrap,
    "num_traits::pow::pow": num_pow,
    "core::f64::<impl f64>::is_nan": float_is_nan,
    "core::f64::<impl f64>::total_cmp": total_cmp_f64,
    "core::f64::<impl f64>::is_finite": float_is_finite,
    "core::f64::<impl f64>::is_infinite": float_is_infinite,
    "core::f64::<impl f64>::abs": float_fn1("abs"),
    "core::f64::<impl f64>::min": float_minmax("min"),
    "core::f64::<impl f64>::minimum": float_minimum("min"),
    "core::f64::<impl f64>::maximum": float_minimum("max"),
    "core::f64::<impl f64>::max": float_minmax("max"),
    "core::f64::<impl f64>::signum": float_signum,
    "std::f64::<impl f64>::ceil": float_fn1("ceil"),
    "std::f64::<impl f64>::floor": float_fn1("floor"),
    "std::f64::<impl f64>::sqrt": float_fn1("sqrt"),
    "std::f64::<impl f64>::abs": float_fn1("abs"),
    "std::f64::<impl f64>::powf": float_powf,
    "core::f64::math::ceil": float_fn1("ceil"),
    "core::f64::math::floor": float_fn1("floor"),
    "core::f64::math::sqrt": float_fn1("sqrt"),
    "core::num::<impl i64>::abs": int_abs,
    "core::cmp::min": cmp_min,
    "core::cmp::max": cmp_max,
    "core::ops::range::RangeInclusive::<Idx>::new": range_incl_new,
    "core::ops::range::RangeInclusive::<Idx>::contains": range_incl_contains,
    "core::ops::range::Range::<Idx>::contains": range_contains,
    "core::slice::<impl [T]>::iter": slice_iter,
    "core::slice::<impl [T]>::iter_mut": slice_iter_mut,
    "core::slice::<impl [T]>::len": slice_len,
    "core::slice::<impl [T]>::split_first": slice_split_first,
    "core::slice::<impl [T]>::first": slice_first_last("first"),
    "core::slice::<impl [T]>::last": slice_first_last("last"),
    "core::slice::<impl [T]>::binary_search_by": binary_search_by,
    "float_ord::sort": sort_floats,
    "core::mem::replace": mem_replace,
    "core::mem::swap": mem_swap,
    "core::mem::take": mem_take,
    "core::fmt::Arguments::<'a>::from_str": fmt_noop,
    "core::fmt::Arguments::<'a>::new": fmt_noop,
    "core::fmt::Arguments::<'a>::new_const": fmt_noop,
    "core::fmt::rt::Argument::<'_>::new_display": fmt_noop,
    "core::fmt::rt::Argument::<'_>::new_debug": fmt_noop,
    "rayon::iter::ParallelIterator::reduce": rayon_reduce,
    "rayon::iter::ParallelIterator::fold": rayon_fold,
    "rayon::iter::IntoParallelIterator::into_par_iter": rayon_into_par_iter,
    "rayon::iter::ParallelIterator::copied": rayon_copied,
    "rayon::iter::ParallelIterator::cloned": rayon_copied,
}

BY_TRAIT = {
    ("num_traits::cast::ToPrimitive", "to_f64"): to_f64,
    ("easy_cast::traits::Conv", "conv"): conv_int_int,
    ("easy_cast::traits::ConvFloat", "conv_nearest"): conv_nearest,
    ("num_traits::float::Float", "sqrt"): float_fn1("sqrt"),
    ("num_traits::float::Float", "abs"): float_fn1("abs"),
    ("num_traits::float::Float", "signum"): float_signum,
    ("num_traits::float::Float", "ceil"): float_fn1("ceil"),
    ("num_traits::float::Float", "floor"): float_fn1("floor"),
    ("num_traits::float::Float", "powf"): float_powf,
    ("num_traits::float::Float", "max"): float_minmax("max"),
    ("num_traits::float::Float", "min"): float_minmax("min"),
    ("num_traits::float::Float", "is_nan"): float_is_nan,
    ("core::cmp::PartialOrd", "partial_cmp"): partial_cmp_f64,
    ("core::cmp::PartialEq", "eq"): partial_eq_ref,
    ("core::cmp::PartialEq", "ne"): partial_ne_ref,
    ("core::clone::Clone", "clone"): clone_any,
    ("core::iter::traits::collect::IntoIterator", "into_iter"): into_iter,
    ("core::iter::traits::iterator::Iterator", "next"): iter_next,
    ("core::iter::traits::iterator::Iterator", "enumerate"): iter_enumerate,
    ("core::iter::traits::iterator::Iterator", "zip"): iter_zip,
    ("core::iter::traits::iterator::Iterator", "rev"): iter_rev,
    ("core::iter::traits::iterator::Iterator", "copied"): iter_copied,
    ("core::iter::traits::iterator::Iterator", "cloned"): iter_copied,
    ("core::iter::traits::iterator::Iterator", "map"): iter_map,
    ("core::iter::traits::iterator::Iterator", "take"): iter_take,
    ("core::iter::traits::iterator::Iterator", "skip"): iter_skip,
    ("core::iter::traits::iterator::Iterator", "sum"): iter_sum,
    ("core::iter::traits::iterator::Iterator", "size_hint"): iter_size_hint,
    ("core::iter::traits::iterator::Iterator", "for_each"): iter_for_each,
    ("core::iter::traits::iterator::Iterator", "try_for_each"): iter_try_for_each,
    ("core::iter::traits::iterator::Iterator", "try_fold"): iter_try_fold,
    ("core::iter::traits::iterator::Iterator", "fold"): iter_fold,
    ("core::iter::traits::iterator::Iterator", "count"): iter_count,
    ("core::ops::index::Index", "index"): index_call(False),
    ("core::ops::index::IndexMut", "index_mut"): index_call(True),
    ("core::ops::arith::AddAssign", "add_assign"): add_assign_ref("Add"),
    ("core::ops::arith::SubAssign", "sub_assign"): add_assign_ref("Sub"),
    ("core::ops::arith::MulAssign", "mul_assign"): add_assign_ref("Mul"),
    ("core::ops::arith::Add", "add"): arith_ref("Add"),
    ("core::ops::arith::Sub", "sub"): arith_ref("Sub"),
    ("core::ops::arith::Mul", "mul"): arith_ref("Mul"),
    ("core::ops::arith::Div", "div"): arith_ref("Div"),
    ("core::default::Default", "default"): default_default,
    ("rayon::iter::IntoParallelIterator", "into_par_iter"): rayon_into_par_iter,
    ("rayon::iter::ParallelIterator", "copied"): rayon_copied,
    ("rayon::iter::ParallelIterator", "cloned"): rayon_copied,
    ("rayon::iter::ParallelIterator", "fold"): rayon_fold,
    ("rayon::iter::ParallelIterator", "reduce"): rayon_reduce,
}


def lookup(ref):
    h = BY_NAME.get(ref["fn"])
    if h is None and ref.get("trait"):
        h = BY_TRAIT.get((ref["trait"], ref.get("name")))
    if h is not None:
        USED.add(ref["fn"])
    return h


# float_ord::FloatOrd is a total order on f64 bit patterns: NaNs sort below -inf or above +inf
# depending on their sign bit.  The abstract domain has no NaN sign, so a NaN operand makes the
# outcome of min/max nondeterministic (both are explored).
def _floatord_pick(m, a, b, want_min, sp):
    fa, fb = a.fields[0], b.fields[0]
    if not (is_float(fa) and is_float(fb)):
        return VOpaque("?", m.new_name("floatord"))
    na = m.truth(("isnan", fa), sp, "floatord")
    nb = m.truth(("isnan", fb), sp, "floatord")
    if na or nb:
        c = m.choose(2, ("floatord-nan-sign", sp))
        return a if c == 0 else b
    le = m.truth(("fcmp", "Le", fa, fb), sp, "floatord")
    if want_min:
        return a if le else b
    return b if le else a


_cmp_min_int = cmp_min
_cmp_max_int = cmp_max


def _bits_pick(m, a, b, want_min, sp):
    from machine import bits_compare
    le = m.truth(bits_compare("Le", a, b), sp, "min/max of bit patterns")
    if want_min:
        return a if le else b
    return b if le else a


def cmp_min2(m, ref, args, t, sp):
    a, b = args
    from machine import VBits
    if isinstance(a, VBits) and isinstance(b, VBits) and a.signed == b.signed and not (a.maybe_nan or b.maybe_nan):
        return _bits_pick(m, a, b, True, sp)
    if isinstance(a, VStruct) and isinstance(b, VStruct) and a.path.endswith("FloatOrd"):
        return _floatord_pick(m, a, b, True, sp)
    return _cmp_min_int(m, ref, args, t, sp)


def cmp_max2(m, ref, args, t, sp):
    a, b = args
    from machine import VBits
    if isinstance(a, VBits) and isinstance(b, VBits) and a.signed == b.signed and not (a.maybe_nan or b.maybe_nan):
        return _bits_pick(m, a, b, False, sp)
    if isinstance(a, VStruct) and isinstance(b, VStruct) and a.path.endswith("FloatOrd"):
        return _floatord_pick(m, a, b, False, sp)
    return _cmp_max_int(m, ref, args, t, sp)


BY_NAME["core::cmp::min"] = cmp_min2
BY_NAME["core::cmp::max"] = cmp_max2
BY_TRAIT[("core::cmp::Ord", "min")] = cmp_min2
BY_TRAIT[("core::cmp::Ord", "max")] = cmp_max2


# ---------------------------------------------------------------------------------------------
# further f64 / iterator / slice helpers (met in seeded changes or plausible in refactorings)


def float_mul_add(m, ref, args, t, sp):
    a, b, c = [load(m, x) for x in args]
    if is_float(a) and is_float(b) and is_float(c):
        return F.mk("add", F.mk("mul", a, b, m.fctx), c, m.fctx)
    return ("opq", m.new_name("mul_add"))


def float_recip(m, ref, args, t, sp):
    a = load(m, args[0])
    if is_float(a):
        r = F.mk("div", F.ONE, a, m.fctx)
        m.div_log.append((F.ONE, a, sp))
        return r
    return ("opq", m.new_name("recip"))


def float_powi(m, ref, args, t, sp):
    a, e = load(m, args[0]), simp(args[1])
    if is_float(a) and isinstance(e, int):
        if e >= 0:
            return num_pow(m, ref, [a, e], t, sp)
        return F.mk("div", F.ONE, num_pow(m, ref, [a, -e], t, sp), m.fctx)
    return ("opq", m.new_name("powi"))


def float_clamp(m, ref, args, t, sp):
    x, lo, hi = [load(m, v) for v in args]
    if is_float(x) and is_float(lo) and is_float(hi):
        # f64::clamp panics unless min <= max.  Decided through the order store when it can; when the two bounds
        # are computed quantities that COINCIDE over the reals (each rounded on its own) the order is a matter of
        # rounding: the panic is reachable (the fragile-assertion argument of R-DASSERT (c))
        if F.is_lit(lo) and F.is_lit(hi):
            if not (F.litval(lo) <= F.litval(hi)):
                raise PathEnd("panic", {"kind": "clamp: min > max", "span": sp, "fn": m.stack[-1] if m.stack else None, "stack": list(m.stack)})
        elif m.order.decide("Le", lo, hi) is not True and not (F.is_lit(lo) or F.is_lit(hi)):
            same = False
            try:
                import pit
                same, _ = pit.identical([("clamp-bounds", lo, hi)], seed=5, points=3, squares=False)
            except Exception:
                same = False
            if same:
                m.notes.append(("clamp-fragile", sp, F.show(lo)[:80], F.show(hi)[:80], m.stack[-1] if m.stack else None))
                raise PathEnd("panic", {"kind": "clamp: the bounds %s and %s coincide over the reals and are rounded separately, so min > max "
                                                "happens by one ulp and f64::clamp panics" % (F.show(lo)[:60], F.show(hi)[:60]),
                                        "span": sp, "fn": m.stack[-1] if m.stack else None, "stack": list(m.stack)})
        return F.fn("max", F.fn("min", x, hi), lo)
    return ("opq", m.new_name("clamp"))


def float_is_sign(neg):
    def h(m, ref, args, t, sp):
        v = load(m, args[0])
        if is_float(v):
            if F.is_lit(v):
                import math
                return (math.copysign(1.0, F.litval(v)) < 0) == neg
            d = m.order.decide("Lt" if neg else "Gt", v, F.ZERO)
            if d is True:
                return True
            d2 = m.order.decide("Gt" if neg else "Lt", v, F.ZERO)
            if d2 is True:
                return False
            # undecided: fork on the numeric sign; only for a zero (or NaN) is the sign bit itself unknown
            if m.order.nan_status(v) is False or m.cfg.finite:
                if m.truth(("fcmp", "Lt" if neg else "Gt", v, F.ZERO), sp, "is_sign"):
                    return True
                if m.truth(("fcmp", "Gt" if neg else "Lt", v, F.ZERO), sp, "is_sign"):
                    return False
        return ("bopq", m.new_name("is_sign"))
    return h


def iter_any_all(is_any):
    def h(m, ref, args, t, sp):
        it = iter_of(m, load(m, args[0]) if isinstance(args[0], VRef) else args[0], sp)
        for x in pull(m, it, sp, closure_arg_ty(m, args[1], 0)):
            r = m.call_closure(args[1], [x], sp)
            tv = m.truth(r, sp, "any/all") if is_cond(r) else None
            if tv is None:
                return ("bopq", m.new_name("any_all"))
            if tv == is_any:
                return is_any
        return not is_any
    return h


def iter_position(m, ref, args, t, sp):
    it = iter_of(m, load(m, args[0]) if isinstance(args[0], VRef) else args[0], sp)
    i = 0
    for x in pull(m, it, sp, closure_arg_ty(m, args[1], 0)):
        r = m.call_closure(args[1], [x], sp)
        if is_cond(r) and m.truth(r, sp, "position"):
            return some(i)
        i += 1
    return none()


def iter_last(m, ref, args, t, sp):
    it = iter_of(m, args[0], sp)
    last = None
    for x in pull(m, it, sp):
        last = x
    return none() if last is None else some(last)


def iter_chain(m, ref, args, t, sp):
    return VModel("chain", a=iter_of(m, args[0], sp), b=iter_of(m, args[1], sp))


def iter_filter(m, ref, args, t, sp):
    return VModel("filter", inner=iter_of(m, args[0], sp), f=args[1])


_model_next_base = model_next


def model_next(m, it, sp, item_ty=None):
    if it.kind == "chain":
        x = model_next(m, it.st["a"], sp, item_ty)
        if x is not None:
            return x
        return model_next(m, it.st["b"], sp, item_ty)
    if it.kind == "filter":
        while True:
            x = model_next(m, it.st["inner"], sp, item_ty or closure_arg_ty(m, it.st["f"], 0))
            if x is None:
                return None
            c = Cell(x)
            r = m.call_closure(it.st["f"], [VRef(c, (), False)], sp)
            if not is_cond(r):
                raise Unsupported("filter predicate")
            if m.truth(r, sp, "filter"):
                return x
    if it.kind == "chunks_exact":
        r, k = it.st["ref"], it.st["k"]
        pos = it.st["pos"]
        if r.lo + pos + k > r.hi:
            return None
        it.st["pos"] = pos + k
        return VRef(r.cell, r.path, r.mut, r.lo + pos, r.lo + pos + k)
    if it.kind == "windows":
        r, k = it.st["ref"], it.st["k"]
        pos = it.st["pos"]
        if r.lo + pos + k > r.hi:
            return None
        it.st["pos"] = pos + 1
        return VRef(r.cell, r.path, False, r.lo + pos, r.lo + pos + k)
    return _model_next_base(m, it, sp, item_ty)


def _slice_ref(m, v, mut):
    tgt = m.read_loc(v.cell, v.path)
    if v.lo is not None:
        return VRef(v.cell, v.path, mut, v.lo, v.hi)
    if isinstance(tgt, VArray):
        return VRef(v.cell, v.path, mut, 0, len(tgt.elems))
    raise Unsupported("slice view")


def slice_chunks_exact(mut):
    def h(m, ref, args, t, sp):
        k = simp(args[1])
        if not isinstance(k, int) or k <= 0:
            raise Unsupported("chunks_exact(symbolic)")
        return VModel("chunks_exact", ref=_slice_ref(m, args[0], mut), k=k, pos=0)
    return h


def slice_chunks(mut):
    def h(m, ref, args, t, sp):
        raise Unsupported("chunks (ragged tail) is not modelled")
    return h


def slice_windows(m, ref, args, t, sp):
    k = simp(args[1])
    if not isinstance(k, int) or k <= 0:
        raise Unsupported("windows(symbolic)")
    return VModel("windows", ref=_slice_ref(m, args[0], False), k=k, pos=0)


def slice_copy_from(m, ref, args, t, sp):
    dst, src = args
    d, _ = slice_elems(m, dst)
    s, _ = slice_elems(m, src)
    if len(d) != len(s):
        raise PathEnd("panic", {"kind": "copy_from_slice-len", "span": sp, "fn": m.stack[-1] if m.stack else None, "stack": list(m.stack)})
    vals = [deep(m.read_loc(c, p)) for c, p in s]
    for (c, p), v in zip(d, vals):
        m.write_loc(c, p, v, sp)
    return UNIT


def slice_fill(m, ref, args, t, sp):
    d, _ = slice_elems(m, args[0])
    for c, p in d:
        m.write_loc(c, p, deep(args[1]), sp)
    return UNIT


def slice_swap(m, ref, args, t, sp):
    els, _ = slice_elems(m, args[0])
    i, j = m.concrete_index(args[1], sp, len(els)), m.concrete_index(args[2], sp, len(els))
    if not (0 <= i < len(els) and 0 <= j < len(els)):
        raise PathEnd("panic", {"kind": "index-oob", "span": sp, "fn": m.stack[-1] if m.stack else None, "stack": list(m.stack)})
    a, b = m.read_loc(*els[i]), m.read_loc(*els[j])
    m.write_loc(els[i][0], els[i][1], b, sp)
    m.write_loc(els[j][0], els[j][1], a, sp)
    return UNIT


BY_NAME.update({
    "core::f64::<impl f64>::mul_add": float_mul_add,
    "std::f64::<impl f64>::mul_add": float_mul_add,
    "core::f64::<impl f64>::recip": float_recip,
    "core::f64::<impl f64>::powi": float_powi,
    "std::f64::<impl f64>::powi": float_powi,
    "core::f64::<impl f64>::clamp": float_clamp,
    "core::f64::<impl f64>::is_sign_negative": float_is_sign(True),
    "core::f64::<impl f64>::is_sign_positive": float_is_sign(False),
    "core::slice::<impl [T]>::chunks_exact_mut": slice_chunks_exact(True),
    "core::slice::<impl [T]>::chunks_exact": slice_chunks_exact(False),
    "core::slice::<impl [T]>::windows": slice_windows,
    "core::slice::<impl [T]>::copy_from_slice": slice_copy_from,
    "core::slice::<impl [T]>::fill": slice_fill,
    "core::slice::<impl [T]>::swap": slice_swap,
})
BY_TRAIT.update({
    ("num_traits::float::Float", "mul_add"): float_mul_add,
    ("num_traits::float::Float", "recip"): float_recip,
    ("num_traits::float::Float", "powi"): float_powi,
    ("num_traits::float::Float", "is_sign_negative"): float_is_sign(True),
    ("num_traits::float::Float", "is_sign_positive"): float_is_sign(False),
    ("core::iter::traits::iterator::Iterator", "any"): iter_any_all(True),
    ("core::iter::traits::iterator::Iterator", "all"): iter_any_all(False),
    ("core::iter::traits::iterator::Iterator", "position"): iter_position,
    ("core::iter::traits::iterator::Iterator", "last"): iter_last,
    ("core::iter::traits::iterator::Iterator", "chain"): iter_chain,
    ("core::iter::traits::iterator::Iterator", "filter"): iter_filter,
})


def _ord_k(m, v):
    v = load(m, v)
    if isinstance(v, VStruct) and v.path == ORDERING:
        return v.variant - 1
    return None


def ordering_pred(test):
    def h(m, ref, args, t, sp):
        k = _ord_k(m, args[0])
        if k is None:
            return ("bopq", m.new_name("ordering"))
        return test(k)
    return h


def ordering_reverse(m, ref, args, t, sp):
    k = _ord_k(m, args[0])
    if k is None:
        return VOpaque("?", m.new_name("reverse"))
    return ordering(-k)


def ordering_then(m, ref, args, t, sp):
    k = _ord_k(m, args[0])
    if k is None:
        return VOpaque("?", m.new_name("then"))
    return args[0] if k != 0 else args[1]


def float_is_finite2(m, ref, args, t, sp):
    v = load(m, args[0])
    if is_float(v) and F.is_lit(v):
        x = F.litval(v)
        return x == x and abs(x) != float("inf")
    if is_float(v):
        if m.cfg.finite:
            return True
        return ("and", ("not", ("isnan", v)), ("and", ("fcmp", "Ne", v, F.INF), ("fcmp", "Ne", v, F.NINF)))
    return ("bopq", m.new_name("is_finite"))


for _nm, _t in (("is_lt", lambda k: k < 0), ("is_le", lambda k: k <= 0), ("is_gt", lambda k: k > 0),
                ("is_ge", lambda k: k >= 0), ("is_eq", lambda k: k == 0), ("is_ne", lambda k: k != 0)):
    BY_NAME["core::cmp::Ordering::" + _nm] = ordering_pred(_t)
BY_NAME["core::cmp::Ordering::reverse"] = ordering_reverse
BY_NAME["core::cmp::Ordering::then"] = ordering_then
BY_NAME["core::f64::<impl f64>::is_finite"] = float_is_finite2
BY_TRAIT[("num_traits::float::Float", "is_finite")] = float_is_finite2


# ---- the `?` operator: Try::branch / FromResidual::from_residual on Option and Result ----
CONTROL_FLOW = "core::ops::control_flow::ControlFlow"


def try_branch(m, ref, args, t, sp):
    v = args[0]
    if isinstance(v, VStruct) and v.path == OPTION:
        if v.variant == 1:
            return VStruct(CONTROL_FLOW, 0, [v.fields[0]], ["0"], "Continue")
        return VStruct(CONTROL_FLOW, 1, [none()], ["0"], "Break")
    if isinstance(v, VStruct) and v.path == RESULT:
        if v.variant == 0:
            return VStruct(CONTROL_FLOW, 0, [v.fields[0]], ["0"], "Continue")
        return VStruct(CONTROL_FLOW, 1, [err(v.fields[0])], ["0"], "Break")
    m.mark_inconclusive("`?` on an unmodelled value", sp)
    return VOpaque("?", m.new_name("branch"))


def try_from_residual(m, ref, args, t, sp):
    v = args[0]
    if isinstance(v, VStruct) and v.path == OPTION:
        return none()
    if isinstance(v, VStruct) and v.path == RESULT and v.variant == 1:
        e = v.fields[0]
        # `From<E> for E` is the identity; a converting `From` impl of the crate is called
        targs = [a for a in (ref.get("resolved_targs") or ref.get("targs") or []) if a.get("k") != "region"]
        if isinstance(e, VStruct):
            for a in targs:
                if a.get("k") == "adt" and a.get("path") == RESULT:
                    ets = [x for x in a["args"] if x.get("k") != "region"]
                    if len(ets) == 2 and ets[1].get("k") == "adt" and ets[1].get("path") != e.path:
                        p = m.db.find_impl_method("core::convert::From", ets[1]["path"], "from")
                        if p:
                            return err(m.call_local(m.db.fns[p], [e], sp))
                        raise Unsupported("from_residual with a foreign error conversion")
        return err(e)
    raise Unsupported("from_residual of %r" % (v,))


BY_TRAIT[("core::ops::try_trait::Try", "branch")] = try_branch
BY_TRAIT[("core::ops::try_trait::FromResidual", "from_residual")] = try_from_residual


def array_from_fn(m, ref, args, t, sp):
    targs = ref.get("resolved_targs") or ref.get("targs") or []
    n = None
    for a in targs:
        if a.get("k") == "const":
            n = m.const_val(a["v"])
    if not isinstance(n, int):
        raise Unsupported("array::from_fn with a symbolic length")
    return VArray([m.call_closure(args[0], [i], sp) for i in range(n)])


BY_NAME["core::array::from_fn"] = array_from_fn


def option_ok_or(m, ref, args, t, sp):
    v = args[0]
    if isinstance(v, VStruct) and v.path == OPTION:
        return ok(v.fields[0]) if v.variant == 1 else err(args[1])
    raise Unsupported("ok_or of unmodelled option")


def option_is(some_):
    def h(m, ref, args, t, sp):
        v = load(m, args[0])
        if isinstance(v, VStruct) and v.path == OPTION:
            return (v.variant == 1) == some_
        return ("bopq", m.new_name("is_some"))
    return h


def result_is(ok_):
    def h(m, ref, args, t, sp):
        v = load(m, args[0])
        if isinstance(v, VStruct) and v.path == RESULT:
            return (v.variant == 0) == ok_
        return ("bopq", m.new_name("is_ok"))
    return h


def result_ok(m, ref, args, t, sp):
    v = args[0]
    if isinstance(v, VStruct) and v.path == RESULT:
        return some(v.fields[0]) if v.variant == 0 else none()
    raise Unsupported("ok() of unmodelled result")


def option_unwrap_or(m, ref, args, t, sp):
    v = args[0]
    if isinstance(v, VStruct) and v.path == OPTION:
        return v.fields[0] if v.variant == 1 else args[1]
    raise Unsupported("unwrap_or of unmodelled option")


def result_map_err(m, ref, args, t, sp):
    v = args[0]
    if isinstance(v, VStruct) and v.path == RESULT:
        return v if v.variant == 0 else err(m.call_closure(args[1], [v.fields[0]], sp))
    raise Unsupported("map_err of unmodelled result")


def result_map(m, ref, args, t, sp):
    v = args[0]
    if isinstance(v, VStruct) and v.path == RESULT:
        return ok(m.call_closure(args[1], [v.fields[0]], sp)) if v.variant == 0 else v
    raise Unsupported("map of unmodelled result")


for _k, _h in (("core::option::Option::<T>::ok_or", option_ok_or), ("core::option::Option::<T>::is_some", option_is(True)),
               ("core::option::Option::<T>::is_none", option_is(False)), ("core::result::Result::<T, E>::is_ok", result_is(True)),
               ("core::result::Result::<T, E>::is_err", result_is(False)), ("core::result::Result::<T, E>::ok", result_ok),
               ("core::option::Option::<T>::unwrap_or", option_unwrap_or), ("core::result::Result::<T, E>::map_err", result_map_err),
               ("core::result::Result::<T, E>::map", result_map)):
    BY_NAME.setdefault(_k, _h)


def convert_from(m, ref, args, t, sp):
    """`From::from` / `Into::into` between primitive numbers: lossless widening (the only impls core
    provides), so integers keep their value and an integer-to-float conversion is exact"""
    v = args[0]
    targs = [a for a in (ref.get("resolved_targs") or ref.get("targs") or []) if a.get("k") == "prim"]
    names = [a.get("s") for a in targs]
    if is_int(v) and names and all(n_ in INT_NAMES or n_ in ("f64", "f32") for n_ in names):
        if any(n_ in ("f64", "f32") for n_ in names[:1]) and ref.get("name") == "from":
            return F.i2f(v)
        return v
    if is_float(v) and names and all(n_ in ("f64", "f32") for n_ in names):
        return v
    if (isinstance(v, bool) or is_cond(v)) and any(n_ == "bool" for n_ in names):
        # `usize::from(b)`, `u64::from(b)`, `f64::from(b)`: false -> 0, true -> 1
        tv = v if isinstance(v, bool) else m.truth(v, sp, "from(bool)")
        if any(n_ in ("f64", "f32") for n_ in names):
            return F.lit(1.0 if tv else 0.0)
        return 1 if tv else 0
    p = None
    if isinstance(v, VStruct):
        for a in (ref.get("resolved_targs") or ref.get("targs") or []):
            if a.get("k") == "adt":
                p = m.db.find_impl_method("core::convert::From", a["path"], "from")
                if p:
                    return m.call_local(m.db.fns[p], [v], sp)
    return m.unknown_call(ref["fn"], args, t, sp, ref)


INT_NAMES = ("u8", "u16", "u32", "u64", "u128", "usize", "i8", "i16", "i32", "i64", "i128", "isize")
BY_TRAIT[("core::convert::From", "from")] = convert_from
BY_TRAIT[("core::convert::Into", "into")] = convert_from


def to_int(dst):
    """ToPrimitive::to_u64 & co.  From an integer: Some(v) when in range.  From a float: the count-like
    value has been routed through f64 (exact only below 2^53) — returned as a marked unknown integer,
    never equal to an integer expression"""
    def h(m, ref, args, t, sp):
        v = load(m, args[0])
        if is_int(v):
            lo, hi = INT_RANGE[dst]
            v = simp(v)
            c = ("ovf", Lin.lift(v), lo, hi) if not isinstance(v, int) else (not (lo <= v <= hi))
            if m.truth(c, sp, "to_" + dst):
                return none()
            return some(v)
        if is_float(v):
            if F.is_lit(v):
                x = F.litval(v)
                lo, hi = INT_RANGE[dst]
                if x == x and lo <= x <= hi:
                    return some(int(x))
                return none()
            return some(VOpaque("int", m.new_name("f2i(%s)" % F.show(v)[:60])))
        return some(VOpaque("int", m.new_name("to_" + dst)))
    return h


for _d in ("u64", "usize", "i64", "u32", "i32", "u128", "i128", "isize", "u16", "u8"):
    BY_TRAIT[("num_traits::cast::ToPrimitive", "to_" + _d)] = to_int(_d)


def slice_get(mutable):
    idx_h = index_call(mutable)

    def h(m, ref, args, t, sp):
        try:
            return some(idx_h(m, ref, args, t, sp))
        except PathEnd as e:
            if e.info.get("kind") in ("index-oob", "slice-oob"):
                return none()
            raise
    return h


BY_NAME["core::slice::<impl [T]>::get"] = slice_get(False)
BY_NAME["core::slice::<impl [T]>::get_mut"] = slice_get(True)


def option_map_or(m, ref, args, t, sp):
    v = args[0]
    if isinstance(v, VStruct) and v.path == OPTION:
        return m.call_closure(args[2], [v.fields[0]], sp) if v.variant == 1 else args[1]
    raise Unsupported("map_or of unmodelled option")


def option_and_then(m, ref, args, t, sp):
    v = args[0]
    if isinstance(v, VStruct) and v.path == OPTION:
        return m.call_closure(args[1], [v.fields[0]], sp) if v.variant == 1 else none()
    raise Unsupported("and_then of unmodelled option")


def option_unwrap_or_else(m, ref, args, t, sp):
    v = args[0]
    if isinstance(v, VStruct) and v.path == OPTION:
        return v.fields[0] if v.variant == 1 else m.call_closure(args[1], [], sp)
    raise Unsupported("unwrap_or_else of unmodelled option")


def option_filter(m, ref, args, t, sp):
    v = args[0]
    if isinstance(v, VStruct) and v.path == OPTION:
        if v.variant == 0:
            return v
        c = Cell(v.fields[0])
        r = m.call_closure(args[1], [VRef(c, (), False)], sp)
        if is_cond(r):
            return v if m.truth(r, sp, "filter") else none()
    raise Unsupported("filter of unmodelled option")


for _k, _h in (("core::option::Option::<T>::map_or", option_map_or), ("core::option::Option::<T>::and_then", option_and_then),
               ("core::option::Option::<T>::unwrap_or_else", option_unwrap_or_else), ("core::option::Option::<T>::filter", option_filter)):
    BY_NAME.setdefault(_k, _h)


def _probe_order(m, fn2, sp):
    """classify a comparator on two non-NaN probes: returns 'asc' when it is the numeric order"""
    res = []
    # numerically equal arguments may compare either way (total orders separate -0.0 from +0.0):
    # the sorted slice is the same up to the order of equal elements
    for rel in ("Lt", "Gt"):
        a, b = F.atom(m.new_name("probe_a")), F.atom(m.new_name("probe_b"))
        saved = m.order
        m.order = saved.clone()
        try:
            m.order.set_nan(a, False)
            m.order.set_nan(b, False)
            m.order.assume(rel, a, b, True)
            n_tr = len(m.trace)
            r = fn2(a, b)
            if len(m.trace) != n_tr:
                return None   # the comparator's answer is not determined by the order of its arguments
        except (PathEnd, Infeasible):
            return None
        finally:
            m.order = saved
        k = _ord_k(m, r)
        if k is None:
            return None
        res.append(k)
    if res == [-1, 1]:
        return "asc"
    if res == [1, -1]:
        return "desc"
    return None


def _maybe_nan(m, src):
    return not m.cfg.finite and any(m.order.nan_status(x) is not False for x in src if is_float(x))


def slice_sort_by(m, ref, args, t, sp):
    els, _ = slice_elems(m, args[0])
    src = [m.read_loc(c, p) for c, p in els]
    if len(src) <= 1:
        return UNIT
    if not all(is_float(x) for x in src):
        raise Unsupported("sort_by on a non-float slice")
    if _maybe_nan(m, src):
        raise Unsupported("sort_by with elements that may be NaN")
    clo = args[1]

    def cmp2(a, b):
        ca, cb = Cell(a), Cell(b)
        return m.call_closure(clo, [VRef(ca, (), False), VRef(cb, (), False)], sp)
    kind = _probe_order(m, cmp2, sp)
    if kind != "asc":
        raise Unsupported("sort_by with a comparator that is not recognised as the ascending numeric order")
    if all(F.is_lit(x) for x in src):
        vals = sorted(src, key=lambda x: F.litval(x))
        for (c, p), v in zip(els, vals):
            m.write_loc(c, p, v, sp)
        return UNIT
    return _sorted_model(m, els, src, sp)


def slice_sort_by_key(m, ref, args, t, sp):
    els, _ = slice_elems(m, args[0])
    src = [m.read_loc(c, p) for c, p in els]
    if len(src) <= 1:
        return UNIT
    if not all(is_float(x) for x in src):
        raise Unsupported("sort_by_key on a non-float slice")
    clo = args[1]
    a = F.atom(m.new_name("probe_k"))
    m.order.set_nan(a, False)
    ca = Cell(a)
    k = m.call_closure(clo, [VRef(ca, (), False)], sp)
    k = load(m, k)
    is_id = (k == a) or (isinstance(k, VStruct) and k.path.endswith("FloatOrd") and k.fields and k.fields[0] == a)
    if not is_id:
        raise Unsupported("sort_by_key with a key that is not the value itself (or its FloatOrd wrapper)")
    if _maybe_nan(m, src) and not isinstance(k, VStruct):
        raise Unsupported("sort_by_key with elements that may be NaN")
    if all(F.is_lit(x) for x in src):
        vals = sorted(src, key=lambda x: F.litval(x))
        for (c, p), v in zip(els, vals):
            m.write_loc(c, p, v, sp)
        return UNIT
    return _sorted_model(m, els, src, sp)


def slice_select_nth_by(m, ref, args, t, sp):
    """[T]::select_nth_unstable_by(k, cmp) under its documented contract: afterwards the element at k is
    the k-th order statistic, everything before it is <= and everything after it >= — in an UNSPECIFIED
    order (the other positions are not order statistics)."""
    els, _ = slice_elems(m, args[0])
    src = [m.read_loc(c, p) for c, p in els]
    k = args[1]
    if not isinstance(k, int) or isinstance(k, bool):
        raise Unsupported("select_nth_unstable_by with a symbolic index")
    if not (0 <= k < len(src)):
        raise PathEnd("panic", {"kind": "select_nth_unstable_by index out of bounds", "span": sp, "stack": list(m.stack)})
    if not all(is_float(x) for x in src):
        raise Unsupported("select_nth_unstable_by on a non-float slice")
    if _maybe_nan(m, src):
        raise Unsupported("select_nth_unstable_by with elements that may be NaN")
    clo = args[2]

    def cmp2(a, b):
        ca, cb = Cell(a), Cell(b)
        return m.call_closure(clo, [VRef(ca, (), False), VRef(cb, (), False)], sp)
    if _probe_order(m, cmp2, sp) != "asc":
        raise Unsupported("select_nth_unstable_by with a comparator that is not recognised as the ascending numeric order")
    if len(src) == 1:
        return VOpaque("?", m.new_name("select_nth"))
    m.sorted_sets = getattr(m, "sorted_sets", {})
    tag = None
    for t0, s0 in m.sorted_sets.items():
        if s0 == list(src):
            tag = t0
    if tag is None:
        tag = "sorted%d" % (len(m.sorted_sets) + 1)
    m.sorted_sets[tag] = list(src)
    kth = ("fn", "sorted", tag, k) + tuple(src)
    outs = []
    for i in range(len(src)):
        if i == k:
            outs.append(kth)
        elif (i < k and k == 1) or (i > k and k == len(src) - 2):
            outs.append(("fn", "sorted", tag, i) + tuple(src))     # a part of one element is determined
        else:
            # some element of the lower (upper) part: which one is unspecified
            outs.append(("fn", "unspecified_order", tag, i, k) + tuple(src))
    try:
        for i, v in enumerate(outs):
            m.order.set_nan(v, False)
            if i < k:
                m.order.assume("Le", v, kth, True)
            elif i > k:
                m.order.assume("Le", kth, v, True)
    except Infeasible:
        raise PathEnd("infeasible")
    for (c, p_), v in zip(els, outs):
        m.write_loc(c, p_, v, sp)
    return VOpaque("?", m.new_name("select_nth"))


for _p in ("core::slice::<impl [T]>::", "alloc::slice::<impl [T]>::", "std::slice::<impl [T]>::"):
    BY_NAME[_p + "select_nth_unstable_by"] = slice_select_nth_by
    for _n in ("sort_by", "sort_unstable_by"):
        BY_NAME[_p + _n] = slice_sort_by
    for _n in ("sort_by_key", "sort_unstable_by_key", "sort_by_cached_key"):
        BY_NAME[_p + _n] = slice_sort_by_key


def slice_partition_point(m, ref, args, t, sp):
    """[T]::partition_point(pred): index of the first element for which pred is false, *provided*
    the slice is partitioned (all true before all false); otherwise the result is unspecified"""
    els, _ = slice_elems(m, args[0])
    flags = []
    for c, p in els:
        r = m.call_closure(args[1], [VRef(c, p, False)], sp)
        if not is_cond(r):
            raise Unsupported("partition_point predicate")
        flags.append(bool(m.truth(r, sp, "partition_point")))
    k = 0
    while k < len(flags) and flags[k]:
        k += 1
    if any(flags[k:]):
        raise Unsupported("partition_point on a slice that is not partitioned by the predicate (result unspecified)")
    return k


for _p in ("core::slice::<impl [T]>::",):
    BY_NAME[_p + "partition_point"] = slice_partition_point


# ---- more of core that idiomatic refactorings use -------------------------------------------
def iter_find(m, ref, args, t, sp):
    it = iter_of(m, load(m, args[0]) if isinstance(args[0], VRef) else args[0], sp)
    for x in pull(m, it, sp, None):
        c = Cell(x)
        r = m.call_closure(args[1], [VRef(c, (), False)], sp)
        if not is_cond(r):
            raise Unsupported("find predicate")
        if m.truth(r, sp, "find"):
            return some(x)
    return none()


def iter_find_map(m, ref, args, t, sp):
    it = iter_of(m, load(m, args[0]) if isinstance(args[0], VRef) else args[0], sp)
    for x in pull(m, it, sp, closure_arg_ty(m, args[1], 0)):
        r = m.call_closure(args[1], [x], sp)
        if isinstance(r, VStruct) and r.path == OPTION:
            if r.variant == 1:
                return r
        else:
            raise Unsupported("find_map closure result")
    return none()


def iter_by_ref(m, ref, args, t, sp):
    return args[0]


def iter_nth(m, ref, args, t, sp):
    r = args[0]
    it = load(m, r)
    n = simp(args[1])
    if not isinstance(n, int):
        raise Unsupported("nth(symbolic)")
    x = None
    for _ in range(n + 1):
        o = iter_next(m, None, [r], None, sp)
        if o.variant == 0:
            return none()
        x = o.fields[0]
    return some(x)


def iter_step_by(m, ref, args, t, sp):
    k = simp(args[1])
    if not isinstance(k, int) or k <= 0:
        raise Unsupported("step_by(symbolic)")
    return VModel("step_by", inner=iter_of(m, args[0], sp), k=k, first=True)


def iter_min_max_by(want_max):
    def h(m, ref, args, t, sp):
        it = iter_of(m, args[0], sp)
        best = None
        for x in pull(m, it, sp, None):
            if best is None:
                best = x
                continue
            ca, cb = Cell(best), Cell(x)
            r = m.call_closure(args[1], [VRef(ca, (), False), VRef(cb, (), False)], sp)
            k = _ord_k(m, r)
            if k is None:
                raise Unsupported("min_by/max_by comparator")
            # max_by returns the last maximal element, min_by the first minimal one
            if (want_max and k <= 0) or (not want_max and k > 0):
                best = x
        return none() if best is None else some(best)
    return h


for _n, _h in (("find", iter_find), ("find_map", iter_find_map), ("by_ref", iter_by_ref), ("nth", iter_nth), ("step_by", iter_step_by),
               ("max_by", iter_min_max_by(True)), ("min_by", iter_min_max_by(False))):
    BY_TRAIT[("core::iter::traits::iterator::Iterator", _n)] = _h

_model_next_2 = model_next


def model_next(m, it, sp, item_ty=None):
    if it.kind == "step_by":
        st = it.st
        if st["first"]:
            st["first"] = False
            return model_next(m, st["inner"], sp, item_ty)
        x = None
        for _ in range(st["k"]):
            x = model_next(m, st["inner"], sp, item_ty)
            if x is None:
                return None
        return x
    return _model_next_2(m, it, sp, item_ty)


def slice_split_at(mutable):
    def h(m, ref, args, t, sp):
        v = args[0]
        k = simp(args[1])
        if not isinstance(k, int):
            k = m.concrete_index(args[1], sp)
        els, _ = slice_elems(m, v)
        lo = v.lo if v.lo is not None else 0
        hi = v.hi if v.hi is not None else len(els)
        if not (0 <= k <= hi - lo):
            raise PathEnd("panic", {"kind": "slice-oob", "span": sp, "fn": m.stack[-1] if m.stack else None, "stack": list(m.stack)})
        return VTuple([VRef(v.cell, v.path, mutable, lo, lo + k), VRef(v.cell, v.path, mutable, lo + k, hi)])
    return h


def slice_split_last(m, ref, args, t, sp):
    v = args[0]
    if isinstance(v, VRef):
        els, _ = slice_elems(m, v)
        lo = v.lo if v.lo is not None else 0
        hi = v.hi if v.hi is not None else len(els)
        if hi - lo == 0:
            return none()
        return some(VTuple([VRef(v.cell, v.path + (hi - 1,), v.mut), VRef(v.cell, v.path, v.mut, lo, hi - 1)]))
    raise Unsupported("split_last of unmodelled slice")


def slice_is_empty(m, ref, args, t, sp):
    n = slice_len(m, ref, args, t, sp)
    n = simp(n)
    if isinstance(n, int):
        return n == 0
    return ("icmp", "Eq", n, 0)


def slice_to_owned_array(m, ref, args, t, sp):
    els, _ = slice_elems(m, args[0])
    return VArray([deep(m.read_loc(c, p)) for c, p in els])


for _p in ("core::slice::<impl [T]>::",):
    BY_NAME[_p + "split_at"] = slice_split_at(False)
    BY_NAME[_p + "split_at_mut"] = slice_split_at(True)
    BY_NAME[_p + "split_last"] = slice_split_last
    BY_NAME[_p + "split_last_mut"] = slice_split_last
    BY_NAME[_p + "split_first_mut"] = slice_split_first
    BY_NAME[_p + "is_empty"] = slice_is_empty
    BY_NAME[_p + "first_mut"] = slice_first_last("first")
    BY_NAME[_p + "last_mut"] = slice_first_last("last")


def clone_from(m, ref, args, t, sp):
    dst, src = args
    v = load(m, src)
    if isinstance(v, VStruct) and v.path in m.db.adts:
        p = m.db.find_impl_method("core::clone::Clone", v.path, "clone_from")
        if p:
            return m.call_local(m.db.fns[p], [dst, src], sp)
        p = m.db.find_impl_method("core::clone::Clone", v.path, "clone")
        if p:
            m.write_loc(dst.cell, dst.path, m.call_local(m.db.fns[p], [src], sp), sp)
            return UNIT
    m.write_loc(dst.cell, dst.path, deep(v), sp)
    return UNIT


BY_TRAIT[("core::clone::Clone", "clone_from")] = clone_from


def bool_then(lazy):
    def h(m, ref, args, t, sp):
        c = args[0]
        tv = m.truth(c, sp, "then") if is_cond(c) and not isinstance(c, bool) else c
        if not isinstance(tv, bool):
            raise Unsupported("bool::then on an unmodelled condition")
        if not tv:
            return none()
        return some(m.call_closure(args[1], [], sp) if lazy else args[1])
    return h


BY_NAME["core::bool::<impl bool>::then"] = bool_then(True)
BY_NAME["core::bool::<impl bool>::then_some"] = bool_then(False)


def int_checked(op):
    def h(m, ref, args, t, sp):
        a, b = simp(args[0]), simp(args[1])
        ty = (ref.get("fn") or "")
        import re as _re
        mm = _re.search(r"<impl (\w+)>", ty)
        tn = mm.group(1) if mm else "u64"
        lo, hi = INT_RANGE.get(tn, INT_RANGE["u64"])
        r = simp(Lin.lift(a) + Lin.lift(b)) if op == "add" else simp(Lin.lift(a) - Lin.lift(b))
        c = (not (lo <= r <= hi)) if isinstance(r, int) else ("ovf", Lin.lift(r), lo, hi)
        if m.truth(c, sp, "checked_" + op):
            return none()
        return some(r)
    return h


def int_saturating_sub(m, ref, args, t, sp):
    a, b = simp(args[0]), simp(args[1])
    r = simp(Lin.lift(a) - Lin.lift(b))
    c = (r < 0) if isinstance(r, int) else ("icmp", "Lt", r, 0)
    if m.truth(c, sp, "saturating_sub"):
        return 0
    return r


for _t in ("u64", "usize", "u32", "i64", "isize", "u128", "u8", "u16", "i32"):
    BY_NAME["core::num::<impl %s>::checked_sub" % _t] = int_checked("sub")
    BY_NAME["core::num::<impl %s>::checked_add" % _t] = int_checked("add")
for _t in ("u64", "usize", "u32", "u128", "u8", "u16"):
    BY_NAME["core::num::<impl %s>::saturating_sub" % _t] = int_saturating_sub


def option_copied(m, ref, args, t, sp):
    v = args[0]
    if isinstance(v, VStruct) and v.path == OPTION:
        return some(deep(load(m, v.fields[0]))) if v.variant == 1 else v
    raise Unsupported("copied of unmodelled option")


def option_map_or_else(m, ref, args, t, sp):
    v = args[0]
    if isinstance(v, VStruct) and v.path == OPTION:
        return m.call_closure(args[2], [v.fields[0]], sp) if v.variant == 1 else m.call_closure(args[1], [], sp)
    if isinstance(v, VStruct) and v.path == RESULT:
        return m.call_closure(args[2], [v.fields[0]], sp) if v.variant == 0 else m.call_closure(args[1], [v.fields[0]], sp)
    raise Unsupported("map_or_else of unmodelled value")


def option_is_some_and(m, ref, args, t, sp):
    v = args[0]
    if isinstance(v, VStruct) and v.path == OPTION:
        if v.variant == 0:
            return False
        return m.call_closure(args[1], [v.fields[0]], sp)
    raise Unsupported("is_some_and of unmodelled option")


def option_or(m, ref, args, t, sp):
    v = args[0]
    if isinstance(v, VStruct) and v.path == OPTION:
        return v if v.variant == 1 else args[1]
    raise Unsupported("or of unmodelled option")


def option_as_ref(m, ref, args, t, sp):
    r = args[0]
    v = load(m, r)
    if isinstance(v, VStruct) and v.path == OPTION and isinstance(r, VRef):
        return some(VRef(r.cell, r.path + (0,), r.mut)) if v.variant == 1 else none()
    raise Unsupported("as_ref of unmodelled option")


def option_ok_or_else(m, ref, args, t, sp):
    v = args[0]
    if isinstance(v, VStruct) and v.path == OPTION:
        return ok(v.fields[0]) if v.variant == 1 else err(m.call_closure(args[1], [], sp))
    raise Unsupported("ok_or_else of unmodelled option")


def result_unwrap_or(m, ref, args, t, sp):
    v = args[0]
    if isinstance(v, VStruct) and v.path == RESULT:
        return v.fields[0] if v.variant == 0 else args[1]
    raise Unsupported("unwrap_or of unmodelled result")


def result_map_or(m, ref, args, t, sp):
    v = args[0]
    if isinstance(v, VStruct) and v.path == RESULT:
        return m.call_closure(args[2], [v.fields[0]], sp) if v.variant == 0 else args[1]
    raise Unsupported("map_or of unmodelled result")


def result_and_then(m, ref, args, t, sp):
    v = args[0]
    if isinstance(v, VStruct) and v.path == RESULT:
        return m.call_closure(args[1], [v.fields[0]], sp) if v.variant == 0 else v
    raise Unsupported("and_then of unmodelled result")


def result_err(m, ref, args, t, sp):
    v = args[0]
    if isinstance(v, VStruct) and v.path == RESULT:
        return some(v.fields[0]) if v.variant == 1 else none()
    raise Unsupported("err() of unmodelled result")


for _k, _h in (("core::option::Option::<&T>::copied", option_copied), ("core::option::Option::<&T>::cloned", option_copied),
               ("core::option::Option::<&mut T>::copied", option_copied),
               ("core::option::Option::<T>::map_or_else", option_map_or_else), ("core::result::Result::<T, E>::map_or_else", option_map_or_else),
               ("core::option::Option::<T>::is_some_and", option_is_some_and), ("core::option::Option::<T>::or", option_or),
               ("core::option::Option::<T>::ok_or_else", option_ok_or_else), ("core::result::Result::<T, E>::unwrap_or", result_unwrap_or),
               ("core::result::Result::<T, E>::map_or", result_map_or), ("core::result::Result::<T, E>::and_then", result_and_then),
               ("core::result::Result::<T, E>::err", result_err), ("core::option::Option::<T>::unwrap_or_default", None)):
    if _h:
        BY_NAME.setdefault(_k, _h)


_PURE_KINDS = ("slice_iter", "array_iter", "zip", "enumerate", "copied", "take", "skip", "chain", "rev", "chunks_exact", "windows", "step_by")


def _pure_iter(it):
    """iterator models whose items can be produced eagerly without observable effects"""
    if isinstance(it, VModel):
        if it.kind == "user_iter":
            v = it.st["cell"].v
            return isinstance(v, VStruct) and v.path.startswith("core::ops::range::Range")
        if it.kind not in _PURE_KINDS:
            return False
        return all(_pure_iter(x) for x in it.st.values() if isinstance(x, VModel))
    return False


_model_next_3 = model_next


def model_next(m, it, sp, item_ty=None):
    if it.kind == "rev" and it.st["inner"].kind != "slice_iter":
        st = it.st
        if "buf" not in st:
            inner = st["inner"]
            if not _pure_iter(inner):
                raise Unsupported("rev of " + inner.kind)
            buf = []
            while True:
                x = model_next(m, inner, sp, item_ty)
                if x is None:
                    break
                buf.append(x)
                if len(buf) > 100000:
                    raise Unsupported("rev of an unbounded iterator")
            st["buf"] = buf
        return st["buf"].pop() if st["buf"] else None
    return _model_next_3(m, it, sp, item_ty)


def _yields_refs(m, it):
    """True/False when the items of iterator model `it` are references / values, None when unknown"""
    if not isinstance(it, VModel):
        return None
    k = it.kind
    if k in ("slice_iter", "windows", "chunks_exact"):
        return True
    if k in ("copied", "array_iter", "enumerate", "zip", "user_iter"):
        return False
    if k in ("take", "skip", "rev", "filter", "step_by", "chain"):
        return _yields_refs(m, it.st.get("inner") or it.st.get("a"))
    if k == "map":
        clo = it.st["f"]
        v = load(m, clo) if isinstance(clo, VRef) else clo
        f = m.db.fns.get(v.path) if isinstance(v, VStruct) else None
        if f:
            return f["locals"][0]["ty"].get("k") == "ref"
        return None
    if k == "opaque_iter":
        f = m.db.fns.get(m.stack[-1]) if m.stack else None
        tr = (f or {}).get("impl_trait_ref") or ""
        if tr:
            import re as _re
            return bool(_re.search(r"(FromIterator|Extend|FromParallelIterator)<&", tr))
    return None


def iter_collect(m, ref, args, t, sp):
    """Iterator::collect::<B>() for a crate-local B: runs B's own FromIterator impl"""
    targs = [a for a in (ref.get("resolved_targs") or ref.get("targs") or []) if a.get("k") == "adt"]
    it = iter_of(m, args[0], sp)
    FI = "core::iter::traits::collect::FromIterator"
    for a in reversed(targs):
        cands = m.db.impl_of.get((FI, a.get("path")), [])
        if not cands:
            continue
        if len(cands) > 1:
            yr = _yields_refs(m, it)
            if yr is None:
                raise Unsupported("collect: cannot tell which FromIterator impl of %s applies" % a["path"])
            cands = [i for i in cands if ((i.get("trait_args") or [{}])[0].get("k") == "ref") == yr]
        if len(cands) == 1:
            p = [x["path"] for x in cands[0]["items"] if x["name"] == "from_iter"]
            if p and p[0] in m.db.fns:
                return m.call_local(m.db.fns[p[0]], [it], sp)
    return m.unknown_call(ref["fn"], args, t, sp, ref)


BY_TRAIT[("core::iter::traits::iterator::Iterator", "collect")] = iter_collect


# enum constructors used as function values (`.map(Some)`, `.map_err(Err)` ...)
BY_NAME["core::option::Option::Some"] = lambda m, ref, args, t, sp: some(args[0])
BY_NAME["core::result::Result::Ok"] = lambda m, ref, args, t, sp: ok(args[0])
BY_NAME["core::result::Result::Err"] = lambda m, ref, args, t, sp: err(args[0])


def conv_round(mode):
    """easy_cast::ConvFloat::{conv_ceil, conv_floor, conv_trunc}: like conv_nearest with another
    rounding; literal arguments are evaluated, symbolic ones become a bounded integer symbol"""
    import math

    def h(m, ref, args, t, sp):
        v = args[0]
        full = ref.get("resolved", ref["full"])
        import re
        mm = re.search(r"ConvFloat<f64> for (\w+)>", full)
        dst = mm.group(1) if mm else "i64"
        lo, hi = INT_RANGE.get(dst, (-INF, INF))
        f = {"ceil": math.ceil, "floor": math.floor, "trunc": math.trunc}[mode]
        if is_float(v) and F.is_lit(v):
            x = F.litval(v)
            if x != x or abs(x) == float("inf") or not (lo <= f(x) <= hi):
                raise PathEnd("panic", {"kind": "easy_cast-range", "span": sp, "fn": m.stack[-1] if m.stack else None,
                                        "stack": list(m.stack)})
            return int(f(x))
        if is_float(v) and v[0] == "fn" and v[1] in ("ceil", "floor") and mode in ("ceil", "floor", "trunc"):
            return conv_nearest(m, ref, args, t, sp)   # already integral: every rounding agrees
        b = m.float_int_bounds(v) if hasattr(m, "float_int_bounds") else None
        blo, bhi = b if b else (lo, hi)
        s = m.ienv.new_sym(mode, max(lo, blo - 1), min(hi, bhi + 1))
        return s
    return h


for _md in ("ceil", "floor", "trunc"):
    BY_TRAIT[("easy_cast::traits::ConvFloat", "conv_" + _md)] = conv_round(_md)


def iter_rposition(m, ref, args, t, sp):
    r = args[0]
    it = iter_of(m, load(m, r) if isinstance(r, VRef) else r, sp)
    if not _pure_iter(it):
        raise Unsupported("rposition of " + (it.kind if isinstance(it, VModel) else "?"))
    items = []
    while True:
        x = model_next(m, it, sp, None)
        if x is None:
            break
        items.append(x)
    for i in range(len(items) - 1, -1, -1):
        rr = m.call_closure(args[1], [items[i]], sp)
        if not is_cond(rr):
            raise Unsupported("rposition predicate")
        if m.truth(rr, sp, "rposition"):
            return some(i)
    return none()


def iter_rfind(m, ref, args, t, sp):
    r = args[0]
    it = iter_of(m, load(m, r) if isinstance(r, VRef) else r, sp)
    if not _pure_iter(it):
        raise Unsupported("rfind of impure iterator")
    items = []
    while True:
        x = model_next(m, it, sp, None)
        if x is None:
            break
        items.append(x)
    for x in reversed(items):
        c = Cell(x)
        rr = m.call_closure(args[1], [VRef(c, (), False)], sp)
        if is_cond(rr) and m.truth(rr, sp, "rfind"):
            return some(x)
    return none()


BY_TRAIT[("core::iter::traits::iterator::Iterator", "rposition")] = iter_rposition
BY_TRAIT[("core::iter::traits::double_ended::DoubleEndedIterator", "rfind")] = iter_rfind
BY_TRAIT[("core::iter::traits::double_ended::DoubleEndedIterator", "rposition")] = iter_rposition


def borrow_borrow(m, ref, args, t, sp):
    """Borrow::borrow / AsRef::as_ref between T, &T and &mut T of plain data: the reference itself, or
    the reference it holds"""
    r = args[0]
    if isinstance(r, VRef):
        v = m.read_loc(r.cell, r.path) if r.lo is None else r
        if isinstance(v, VRef):
            return v
        return r
    return m.unknown_call(ref["fn"], args, t, sp, ref)


BY_TRAIT[("core::borrow::Borrow", "borrow")] = borrow_borrow
BY_TRAIT[("core::borrow::BorrowMut", "borrow_mut")] = borrow_borrow
BY_TRAIT[("core::convert::AsRef", "as_ref")] = borrow_borrow


# ---- bit-pattern sort keys: decided on concrete witnesses ------------------------------------
def f64_to_bits(m, ref, args, t, sp):
    v = load(m, args[0])
    if is_float(v) and F.is_lit(v):
        return v[1]
    if is_float(v):
        from machine import VBits
        return VBits(v, False, m.new_name("bits(%s)" % F.show(v)[:40]), maybe_nan=m.order.nan_status(v) is not False)
    return VOpaque("int", m.new_name("bits(%s)" % (F.show(v)[:40] if is_float(v) else "?")))


def f64_from_bits(m, ref, args, t, sp):
    from machine import VBits
    if isinstance(args[0], VBits) and not args[0].maybe_nan:
        return args[0].src
    v = simp(args[0])
    if isinstance(v, int) and 0 <= v < 2**64:
        return ("lit", v)
    return ("opq", m.new_name("from_bits"))


BY_NAME["core::f64::<impl f64>::to_bits"] = f64_to_bits
BY_NAME["core::f64::<impl f64>::from_bits"] = f64_from_bits

_WITNESS = [float("-inf"), -1e300, -2.0, -1.0, -0.5, -1e-300, -0.0, 0.0, 1e-300, 0.5, 1.0, 2.0, 1e300, float("inf")]


def _witness_keys(m, key_of, sp):
    """evaluate a key function on the witness values; None when some key is not a concrete number"""
    out = []
    for x in _WITNESS:
        n_tr = len(m.trace)
        try:
            k = key_of(F.lit(x))
        except (PathEnd, Infeasible, Unsupported):
            return None
        if len(m.trace) != n_tr:
            return None
        k = load(m, k)
        if isinstance(k, VStruct) and k.path.endswith("FloatOrd") and k.fields:
            k = k.fields[0]
        if is_float(k) and F.is_lit(k):
            k = F.litval(k)
        else:
            k = simp(k) if is_int(k) else k
        if not isinstance(k, (int, float)) or isinstance(k, bool) or k != k:
            return None
        out.append(k)
    return out


def _monotone_witness(keys):
    """first pair of witnesses a < b that the key does not order a before b, or None (numerically
    equal witnesses, -0.0 and +0.0, may be keyed either way)"""
    for i in range(len(_WITNESS)):
        for j in range(i + 1, len(_WITNESS)):
            a, b = _WITNESS[i], _WITNESS[j]
            if a < b and not keys[i] < keys[j]:
                return (a, b, keys[i], keys[j])
    return None


_slice_sort_by_key_0 = slice_sort_by_key


def slice_sort_by_key(m, ref, args, t, sp):
    try:
        return _slice_sort_by_key_0(m, ref, args, t, sp)
    except Unsupported as e:
        if "not the value itself" not in str(e):
            raise
        clo = args[1]

        def key_of(lit):
            return m.call_closure(clo, [VRef(Cell(lit), (), False)], sp)
        keys = _witness_keys(m, key_of, sp)
        if keys is None:
            raise
        bad = _monotone_witness(keys)
        if bad is not None:
            m.notes.append(("sort-order-witness", sp, "key(%r) = %r is not below key(%r) = %r" % (bad[0], bad[2], bad[1], bad[3]),
                            m.stack[-1] if m.stack else None))
            raise Unsupported("sort key is not monotone: key(%r) = %r, key(%r) = %r" % (bad[0], bad[2], bad[1], bad[3]))
        # monotone on every witness (both signs, zeros, subnormal-scale, huge, infinities): taken as the numeric order
        els, _ = slice_elems(m, args[0])
        src = [m.read_loc(c, p) for c, p in els]
        if _maybe_nan(m, src):
            raise Unsupported("sort_by_key with elements that may be NaN")
        if all(F.is_lit(x) for x in src):
            vals = sorted(src, key=lambda x: F.litval(x))
            for (c, p), v in zip(els, vals):
                m.write_loc(c, p, v, sp)
            return UNIT
        return _sorted_model(m, els, src, sp)


_slice_sort_by_0 = slice_sort_by


def slice_sort_by(m, ref, args, t, sp):
    try:
        return _slice_sort_by_0(m, ref, args, t, sp)
    except Unsupported as e:
        if "not recognised as the ascending numeric order" not in str(e):
            raise
        clo = args[1]
        # concrete witnesses: adjacent pairs of the witness list
        for i in range(len(_WITNESS) - 1):
            a, b = _WITNESS[i], _WITNESS[i + 1]
            if not a < b:
                continue
            n_tr = len(m.trace)
            try:
                r = m.call_closure(clo, [VRef(Cell(F.lit(a)), (), False), VRef(Cell(F.lit(b)), (), False)], sp)
            except (PathEnd, Infeasible, Unsupported):
                raise e
            k = _ord_k(m, r)
            if k is None or len(m.trace) != n_tr:
                raise e
            if k != -1:
                m.notes.append(("sort-order-witness", sp, "the comparator does not order %r before %r" % (a, b), m.stack[-1] if m.stack else None))
                raise Unsupported("comparator does not order %r before %r" % (a, b))
        raise e


for _p in ("core::slice::<impl [T]>::", "alloc::slice::<impl [T]>::", "std::slice::<impl [T]>::"):
    for _n in ("sort_by", "sort_unstable_by"):
        BY_NAME[_p + _n] = slice_sort_by
    for _n in ("sort_by_key", "sort_unstable_by_key", "sort_by_cached_key"):
        BY_NAME[_p + _n] = slice_sort_by_key


# ---------------------------------------------------------------------------------------------
# Less common adaptors (seeded batch j: a defect hidden behind an idiom is only found when the idiom
# has a model).  Each follows the documented behaviour of core; the terminating adaptors (`scan`,
# `take_while`, `map_while`) END the iteration on the first `None`/false — and `take_while` has then
# already consumed that element from the underlying iterator.

def _next_any(m, inner, sp, ty=None):
    if isinstance(inner, VModel):
        return model_next(m, inner, sp, ty)
    c = Cell(inner)
    o = iter_next(m, None, [VRef(c, (), True)], None, sp)
    return o.fields[0] if o.variant == 1 else None


def _recv_iter(m, a, sp):
    """the iterator an adaptor is called on: by value, or `&mut I` (by_ref) — the model object is shared"""
    if isinstance(a, VRef):
        tgt = m.read_loc(a.cell, a.path)
        if isinstance(tgt, VModel):
            return tgt
        return iter_of(m, tgt, sp)
    return iter_of(m, a, sp)


def iter_scan(m, ref, args, t, sp):
    return VModel("scan", inner=_recv_iter(m, args[0], sp), state=Cell(args[1]), f=args[2], done=False)


def iter_take_while(m, ref, args, t, sp):
    return VModel("take_while", inner=_recv_iter(m, args[0], sp), f=args[1], done=False)


def iter_skip_while(m, ref, args, t, sp):
    return VModel("skip_while", inner=_recv_iter(m, args[0], sp), f=args[1], started=False)


def iter_map_while(m, ref, args, t, sp):
    return VModel("map_while", inner=_recv_iter(m, args[0], sp), f=args[1], done=False)


def iter_peekable(m, ref, args, t, sp):
    return VModel("peekable", inner=_recv_iter(m, args[0], sp), peeked=None)


def iter_fuse(m, ref, args, t, sp):
    return VModel("fuse", inner=_recv_iter(m, args[0], sp), done=False)


def peekable_peek(m, ref, args, t, sp):
    it = load(m, args[0]) if isinstance(args[0], VRef) else args[0]
    if not (isinstance(it, VModel) and it.kind == "peekable"):
        raise Unsupported("peek on %r" % (it,))
    if it.st["peeked"] is None:
        ty = dest_item_ty(m, t)                  # Option<&Item>: the items themselves have type Item
        if isinstance(ty, dict) and ty.get("k") == "ref":
            ty = ty.get("to")
        it.st["peeked"] = ("v", _next_any(m, it.st["inner"], sp, ty))
    x = it.st["peeked"][1]
    if x is None:
        return none()
    return some(VRef(Cell(x), (), False))


_model_next_j = model_next


def model_next(m, it, sp, item_ty=None):
    k, st = it.kind, it.st
    if k == "scan":
        if st["done"]:
            return None
        x = _next_any(m, st["inner"], sp, closure_arg_ty(m, st["f"], 1))
        if x is None:
            return None
        r = m.call_closure(st["f"], [VRef(st["state"], (), True), x], sp)
        if not (isinstance(r, VStruct) and r.path == OPTION):
            raise Unsupported("scan closure result")
        if r.variant == 0:
            st["done"] = True      # `None` from the closure ends the iteration, it does not skip the item
            return None
        return r.fields[0]
    if k == "map_while":
        if st["done"]:
            return None
        x = _next_any(m, st["inner"], sp, closure_arg_ty(m, st["f"], 0))
        if x is None:
            return None
        r = m.call_closure(st["f"], [x], sp)
        if not (isinstance(r, VStruct) and r.path == OPTION):
            raise Unsupported("map_while closure result")
        if r.variant == 0:
            st["done"] = True
            return None
        return r.fields[0]
    if k == "take_while":
        if st["done"]:
            return None
        x = _next_any(m, st["inner"], sp, item_ty)
        if x is None:
            return None
        r = m.call_closure(st["f"], [VRef(Cell(x), (), False)], sp)
        if not is_cond(r):
            raise Unsupported("take_while predicate")
        if m.truth(r, sp, "take_while"):
            return x
        st["done"] = True          # the element that failed the test is consumed and dropped
        return None
    if k == "skip_while":
        while True:
            x = _next_any(m, st["inner"], sp, item_ty)
            if x is None:
                return None
            if st["started"]:
                return x
            r = m.call_closure(st["f"], [VRef(Cell(x), (), False)], sp)
            if not is_cond(r):
                raise Unsupported("skip_while predicate")
            if not m.truth(r, sp, "skip_while"):
                st["started"] = True
                return x
    if k == "peekable":
        if st["peeked"] is not None:
            x = st["peeked"][1]
            st["peeked"] = None
            return x
        return _next_any(m, st["inner"], sp, item_ty)
    if k == "fuse":
        if st["done"]:
            return None
        x = _next_any(m, st["inner"], sp, item_ty)
        if x is None:
            st["done"] = True
        return x
    return _model_next_j(m, it, sp, item_ty)


def iter_reduce(m, ref, args, t, sp):
    it = _recv_iter(m, args[0], sp)
    ty = closure_arg_ty(m, args[1], 0)
    acc = _next_any(m, it, sp, ty)
    if acc is None:
        return none()
    for x in pull(m, it, sp, ty):
        acc = m.call_closure(args[1], [acc, x], sp)
    return some(acc)


def chunks_exact_remainder(m, ref, args, t, sp):
    it = load(m, args[0]) if isinstance(args[0], VRef) else args[0]
    if not (isinstance(it, VModel) and it.kind == "chunks_exact"):
        raise Unsupported("remainder of %r" % (it,))
    r, k = it.st["ref"], it.st["k"]
    n = r.hi - r.lo
    return VRef(r.cell, r.path, r.mut, r.lo + (n // k) * k, r.hi)


def exact_size_len(m, ref, args, t, sp):
    it = load(m, args[0]) if isinstance(args[0], VRef) else args[0]
    if isinstance(it, VModel) and it.kind == "chunks_exact":
        r, k = it.st["ref"], it.st["k"]
        return max(0, (r.hi - r.lo - it.st["pos"]) // k)
    if isinstance(it, VModel) and it.kind == "slice_iter":
        r = it.st["ref"]
        return max(0, r.hi - r.lo - it.st["pos"])
    raise Unsupported("ExactSizeIterator::len of %r" % (getattr(it, "kind", it),))


FP_CATEGORY = "core::num::FpCategory"


def float_classify(m, ref, args, t, sp):
    """f64::classify: Nan, Infinite, Zero, Subnormal, Normal (variant indices 0..4), decided through the order store"""
    v = load(m, args[0])
    if not is_float(v):
        raise Unsupported("classify of a non-float")
    names = ["Nan", "Infinite", "Zero", "Subnormal", "Normal"]

    def cat(i):
        return VStruct(FP_CATEGORY, i, [], [], names[i])
    if F.is_lit(v):
        import math
        x = F.litval(v)
        if x != x:
            return cat(0)
        if math.isinf(x):
            return cat(1)
        if x == 0:
            return cat(2)
        return cat(3 if abs(x) < 2.2250738585072014e-308 else 4)
    st = m.order.nan_status(v)
    if st is True or (st is None and not m.cfg.finite and m.truth(("isnan", v), sp, "classify")):
        return cat(0)
    if not m.cfg.finite and m.truth(("or", ("fcmp", "Eq", v, F.INF), ("fcmp", "Eq", v, F.NINF)), sp, "classify"):
        return cat(1)
    if m.truth(("fcmp", "Eq", v, F.ZERO), sp, "classify"):
        return cat(2)
    # finite and non-zero: subnormal or normal.  Both are possible for an abstract value; the threshold is not
    # compared symbolically (a comparison of a weight or an observation with 2.2e-308 would be a scale-dependent
    # test in the eyes of R-DIM, although telling the two categories apart is the caller's business)
    return cat(3 if m.choose(2, ("classify-subnormal", sp)) == 1 else 4)


def float_is_normal(m, ref, args, t, sp):
    c = float_classify(m, ref, args, t, sp)
    return c.variant == 4


def int_abs_diff(m, ref, args, t, sp):
    a, b = simp(args[0]), simp(args[1])
    if isinstance(a, int) and isinstance(b, int):
        return abs(a - b)
    if m.truth(("icmp", "Lt", a, b), sp, "abs_diff"):
        return simp(Lin.lift(b) - Lin.lift(a))
    return simp(Lin.lift(a) - Lin.lift(b))


def bool_then_some(m, ref, args, t, sp):
    c = args[0]
    tv = c if isinstance(c, bool) else (m.truth(c, sp, "then_some") if is_cond(c) else None)
    if tv is None:
        raise Unsupported("then_some on an unknown condition")
    return some(args[1]) if tv else none()


def opt_replace(m, ref, args, t, sp):
    dst, v = args
    old = m.read_loc(dst.cell, dst.path)
    m.write_loc(dst.cell, dst.path, some(v), sp)
    return old


def opt_take(m, ref, args, t, sp):
    dst = args[0]
    old = m.read_loc(dst.cell, dst.path)
    m.write_loc(dst.cell, dst.path, none(), sp)
    return old


def result_and(m, ref, args, t, sp):
    a, b = args
    if isinstance(a, VStruct) and a.path == RESULT:
        return b if a.variant == 0 else a
    raise Unsupported("Result::and on %r" % (a,))


def nonzero_new(m, ref, args, t, sp):
    a = simp(args[0])
    z = (a == 0) if isinstance(a, int) else ("icmp", "Eq", a, 0)
    if m.truth(z, sp, "NonZero::new"):
        return none()
    return some(a)          # a NonZero integer is represented by its value


def nonzero_get(m, ref, args, t, sp):
    return load(m, args[0]) if isinstance(args[0], VRef) else args[0]


_IT = "core::iter::traits::iterator::Iterator"
for _n, _h in (("scan", iter_scan), ("take_while", iter_take_while), ("skip_while", iter_skip_while), ("map_while", iter_map_while),
               ("peekable", iter_peekable), ("fuse", iter_fuse), ("reduce", iter_reduce)):
    BY_NAME[_IT + "::" + _n] = _h
    BY_TRAIT[(_IT, _n)] = _h
BY_NAME["core::iter::adapters::peekable::Peekable::<I>::peek"] = peekable_peek
BY_NAME["core::slice::iter::ChunksExact::<'a, T>::remainder"] = chunks_exact_remainder
BY_NAME["core::slice::iter::ChunksExactMut::<'a, T>::into_remainder"] = chunks_exact_remainder
BY_TRAIT[("core::iter::traits::exact_size::ExactSizeIterator", "len")] = exact_size_len
BY_NAME["core::iter::traits::exact_size::ExactSizeIterator::len"] = exact_size_len
for _p in ("core::f64::<impl f64>::", "std::f64::<impl f64>::"):
    BY_NAME[_p + "classify"] = float_classify
    BY_NAME[_p + "is_normal"] = float_is_normal
BY_TRAIT[("num_traits::float::Float", "classify")] = float_classify
BY_TRAIT[("num_traits::float::Float", "is_normal")] = float_is_normal
for _t in ("u64", "usize", "u32", "u128", "u8", "u16", "i64", "i32", "isize"):
    BY_NAME["core::num::<impl %s>::abs_diff" % _t] = int_abs_diff
BY_NAME["core::bool::<impl bool>::then_some"] = bool_then_some
BY_NAME["core::option::Option::<T>::replace"] = opt_replace
BY_NAME["core::option::Option::<T>::take"] = opt_take
BY_NAME["core::result::Result::<T, E>::and"] = result_and
for _t in ("u64", "usize", "u32"):
    BY_NAME["core::num::nonzero::NonZero::<%s>::new" % _t] = nonzero_new
BY_NAME["core::num::nonzero::NonZero::<T>::new"] = nonzero_new
BY_NAME["core::num::nonzero::NonZero::<T>::get"] = nonzero_get


def int_checked_mul(m, ref, args, t, sp):
    """checked_mul: the product when both factors are known; otherwise both outcomes are explored (a product of
    two sample counts does overflow u64 once the counts pass 2^32) and the product itself is an unknown"""
    a, b = simp(args[0]), simp(args[1])
    import re as _re
    mm = _re.search(r"<impl (\w+)>", ref.get("fn") or "")
    lo, hi = INT_RANGE.get(mm.group(1) if mm else "u64", INT_RANGE["u64"])
    if isinstance(a, int) and isinstance(b, int):
        r = a * b
        return some(r) if lo <= r <= hi else none()
    if (isinstance(a, int) and a == 0) or (isinstance(b, int) and b == 0):
        return some(0)
    if isinstance(a, int) or isinstance(b, int):
        k, x = (a, b) if isinstance(a, int) else (b, a)
        r = simp(Lin.lift(x) * k)
        if m.truth(("ovf", Lin.lift(r), lo, hi), sp, "checked_mul"):
            return none()
        return some(r)
    if m.choose(2, ("checked_mul-overflow", sp)) == 1:
        return none()
    return some(VOpaque("u64", m.new_name("product")))


for _t in ("u64", "usize", "u32", "u128", "i64", "i32"):
    BY_NAME["core::num::<impl %s>::checked_mul" % _t] = int_checked_mul

# the free function `core::iter::zip(a, b)` is `a.into_iter().zip(b)`
BY_NAME["core::iter::adapters::zip::zip"] = iter_zip
BY_NAME["core::iter::zip"] = iter_zip


def iter_successors(m, ref, args, t, sp):
    """core::iter::successors(first, f): first, f(&first), f(&that), ... until None"""
    return VModel("successors", cur=args[0], f=args[1])


_model_next_k = model_next


def model_next(m, it, sp, item_ty=None):
    if it.kind == "successors":
        cur = it.st["cur"]
        if not (isinstance(cur, VStruct) and cur.path == OPTION):
            raise Unsupported("successors state")
        if cur.variant == 0:
            return None
        x = cur.fields[0]
        nxt = m.call_closure(it.st["f"], [VRef(Cell(x), (), False)], sp)
        if not (isinstance(nxt, VStruct) and nxt.path == OPTION):
            raise Unsupported("successors closure result")
        it.st["cur"] = nxt
        return x
    return _model_next_k(m, it, sp, item_ty)


BY_NAME["core::iter::sources::successors::successors"] = iter_successors
BY_NAME["core::iter::successors"] = iter_successors


def int_next_power_of_two(m, ref, args, t, sp):
    a = simp(args[0])
    if isinstance(a, int) and not isinstance(a, bool) and a >= 0:
        return 1 if a <= 1 else 1 << (a - 1).bit_length()
    raise Unsupported("next_power_of_two of a symbolic integer")


def int_is_power_of_two(m, ref, args, t, sp):
    a = simp(args[0])
    if isinstance(a, int) and not isinstance(a, bool):
        return a > 0 and (a & (a - 1)) == 0
    raise Unsupported("is_power_of_two of a symbolic integer")


for _t in ("u64", "usize", "u32", "u128", "u8", "u16"):
    BY_NAME["core::num::<impl %s>::next_power_of_two" % _t] = int_next_power_of_two
    BY_NAME["core::num::<impl %s>::is_power_of_two" % _t] = int_is_power_of_two
