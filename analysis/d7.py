"""D7 (engine 2) — real-algebra normal form via sympy, for residuals that contain square roots or
fractional powers (accessor formulas).  Counts and atoms declared non-negative are positive
symbols so that sqrt(a*b) = sqrt(a)*sqrt(b) and (a**3)**(1/2) = a**(3/2) are valid rewrites.
"""
from fractions import Fraction

import sympy as sp

import fnode as F
from lin import Lin


class Conv:
    def __init__(self, positive=None, machine=None):
        self.syms = {}
        self.positive = positive or (lambda name: False)
        self.memo = {}
        self.m = machine

    def atom(self, name):
        s = self.syms.get(name)
        if s is None:
            clean = name.replace(".", "_").replace("[", "_").replace("]", "").replace("*", "").replace("#", "_").replace("~", "_")
            s = sp.Symbol(clean, positive=True) if self.positive(name) else sp.Symbol(clean, real=True)
            self.syms[name] = s
        return s

    def intsym(self, name):
        s = self.syms.get("int:" + name)
        if s is None:
            clean = name.replace(".", "_").replace("[", "_").replace("]", "").replace("#", "_")
            s = sp.Symbol(clean, positive=True, integer=True)
            self.syms["int:" + name] = s
        return s

    def lin(self, key):
        terms, c = key
        e = sp.Integer(c)
        for s, k in terms:
            e += k * self.intsym(s)
        return e

    def conv(self, n):
        r = self.memo.get(n)
        if r is not None:
            return r
        k = n[0]
        if k == "lit":
            v = F.litval(n)
            if v != v:
                r = sp.nan
            elif v == float("inf"):
                r = sp.oo
            elif v == float("-inf"):
                r = -sp.oo
            else:
                fr = Fraction(v)
                r = sp.Rational(fr.numerator, fr.denominator)
        elif k == "atom":
            r = self.atom(n[1])
        elif k == "i2f":
            r = self.lin(n[1])
        elif k == "neg":
            r = -self.conv(n[1])
        elif k == "add":
            r = self.conv(n[1]) + self.conv(n[2])
        elif k == "sub":
            r = self.conv(n[1]) - self.conv(n[2])
        elif k == "mul":
            r = self.conv(n[1]) * self.conv(n[2])
        elif k == "div":
            r = self.conv(n[1]) / self.conv(n[2])
        elif k == "fn":
            name = n[1]
            if name == "sqrt":
                r = sp.sqrt(self.conv(n[2]))
            elif name == "abs":
                r = sp.Abs(self.conv(n[2]))
            elif name == "powi":
                r = self.conv(n[2]) ** n[3]
            elif name == "powf":
                e = n[3]
                if F.is_lit(e):
                    fr = Fraction(F.litval(e)).limit_denominator(64)
                    r = self.conv(n[2]) ** sp.Rational(fr.numerator, fr.denominator)
                else:
                    r = self.conv(n[2]) ** self.conv(e)
            elif name == "min":
                r = sp.Min(self.conv(n[2]), self.conv(n[3]))
            elif name == "max":
                r = sp.Max(self.conv(n[2]), self.conv(n[3]))
            elif name == "signum":
                r = sp.sign(self.conv(n[2]))
            elif name == "ceil":
                r = sp.ceiling(self.conv(n[2]))
            elif name == "floor":
                r = sp.floor(self.conv(n[2]))
            else:
                r = sp.Function(name)(*[self.conv(a) for a in n[2:] if isinstance(a, tuple)])
        elif k == "opq":
            r = sp.Symbol("opq_%s" % str(n[1]).replace("~", "_").replace(":", "_"), real=True)
        else:
            raise ValueError("cannot convert %r" % (k,))
        self.memo[n] = r
        return r


class SympyTimeout(Exception):
    pass


class time_limit:
    """wall-clock limit for a block of sympy work (simplification of an expression with Abs/sign/Piecewise
    can take minutes): the obligation is then undecided, not the run stuck"""

    def __init__(self, seconds):
        self.seconds = seconds

    def __enter__(self):
        import signal
        import time
        if time_limit.spent > SYMPY_BUDGET:
            raise SympyTimeout("symbolic simplification budget of this run (%d s) exhausted" % SYMPY_BUDGET)
        self.t0 = time.time()

        def handler(signum, frame):
            raise SympyTimeout("symbolic simplification exceeded %d s" % self.seconds)
        self.old = signal.signal(signal.SIGALRM, handler)
        signal.setitimer(signal.ITIMER_REAL, self.seconds)

    def __exit__(self, *a):
        import signal
        import time
        time_limit.spent += time.time() - self.t0
        signal.setitimer(signal.ITIMER_REAL, 0)
        signal.signal(signal.SIGALRM, self.old)
        return False


SYMPY_SECONDS = 30
SYMPY_BUDGET = 150      # per check run; the pinned tree needs < 10 s in total
time_limit.spent = 0.0


def is_zero_expr(e):
    if e == 0:
        return True
    try:
        with time_limit(SYMPY_SECONDS):
            return _is_zero_expr(e)
    except SympyTimeout:
        raise
    except Exception:
        return False


def _is_zero_expr(e):
    try:
        e2 = sp.simplify(e)
        if e2 == 0:
            return True
        e3 = sp.simplify(sp.powsimp(sp.powdenest(sp.expand(e2), force=True), force=True))
        if e3 == 0:
            return True
        e4 = sp.radsimp(sp.together(e3))
        return sp.simplify(e4) == 0
    except SympyTimeout:
        raise
    except Exception:
        return False


def identical(pairs, machine=None, positive=None):
    cv = Conv(positive or (lambda n: False), machine)
    for lab, a, b in pairs:
        ea, eb = cv.conv(a), cv.conv(b)
        if not is_zero_expr(ea - eb):
            with time_limit(SYMPY_SECONDS):
                return False, (lab, {}, sp.simplify(ea), sp.simplify(eb))
    return True, None


def equal_exprs(ea, eb):
    return is_zero_expr(ea - eb)
