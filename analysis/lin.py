"""Symbolic integers: affine forms over named symbols with per-symbol bounds kept in an IntEnv.

A Lin is  c + sum_i k_i * s_i  (s_i symbol names).  Anything non-affine (product of two symbols,
division by a symbol) is replaced by a fresh opaque symbol with derived bounds when derivable.
"""

INF = float("inf")


class Lin:
    __slots__ = ("terms", "c")

    def __init__(self, terms=None, c=0):
        self.terms = {k: v for k, v in (terms or {}).items() if v != 0}
        self.c = c

    @staticmethod
    def sym(name):
        return Lin({name: 1}, 0)

    @staticmethod
    def const(c):
        return Lin({}, c)

    @staticmethod
    def lift(x):
        return x if isinstance(x, Lin) else Lin({}, x)

    def as_const(self):
        return self.c if not self.terms else None

    def key(self):
        return (tuple(sorted(self.terms.items())), self.c)

    @staticmethod
    def from_key(k):
        return Lin(dict(k[0]), k[1])

    def __add__(self, o):
        o = Lin.lift(o)
        t = dict(self.terms)
        for k, v in o.terms.items():
            t[k] = t.get(k, 0) + v
        return Lin(t, self.c + o.c)

    def __neg__(self):
        return Lin({k: -v for k, v in self.terms.items()}, -self.c)

    def __sub__(self, o):
        return self + (-Lin.lift(o))

    def scale(self, k):
        return Lin({s: v * k for s, v in self.terms.items()}, self.c * k)

    def __eq__(self, o):
        return isinstance(o, Lin) and self.key() == o.key()

    def __hash__(self):
        return hash(self.key())

    def show(self):
        parts = []
        for s, k in sorted(self.terms.items()):
            if k == 1:
                parts.append(s)
            elif k == -1:
                parts.append("-" + s)
            else:
                parts.append("%d*%s" % (k, s))
        if self.c or not parts:
            parts.append(str(self.c))
        return "+".join(parts).replace("+-", "-")

    __repr__ = show


def simp(x):
    """Lin -> python int when constant"""
    if isinstance(x, Lin):
        c = x.as_const()
        if c is not None:
            return c
    return x


class IntEnv:
    """bounds for integer symbols; refined along a path"""

    def __init__(self):
        self.lo = {}
        self.hi = {}
        self.fresh = 0
        self.forms = {}   # normalised multi-symbol term part -> (lo, hi): relational facts

    def copy(self):
        e = IntEnv()
        e.lo = dict(self.lo)
        e.hi = dict(self.hi)
        e.fresh = self.fresh
        e.forms = dict(self.forms)
        return e

    @staticmethod
    def _norm(x):
        """x = sgn * T + c with T the term part normalised to a positive leading coefficient"""
        items = tuple(sorted(x.terms.items()))
        if not items:
            return None, 1, x.c
        sgn = 1 if items[0][1] > 0 else -1
        key = tuple((s, k * sgn) for s, k in items)
        return key, sgn, x.c

    def declare(self, name, lo=-INF, hi=INF):
        self.lo[name] = lo
        self.hi[name] = hi

    def new_sym(self, hint, lo=-INF, hi=INF):
        self.fresh += 1
        name = "%s#%d" % (hint, self.fresh)
        self.declare(name, lo, hi)
        return Lin.sym(name)

    def sym_bounds(self, s):
        """bounds of one symbol, tightened by the relational facts it takes part in"""
        lo = self.lo.get(s, -INF)
        hi = self.hi.get(s, INF)
        if self.forms:
            import math
            for key, (flo, fhi) in self.forms.items():
                ks = None
                rlo = rhi = 0
                for t, k in key:
                    if t == s:
                        ks = k
                        continue
                    tlo, thi = self.lo.get(t, -INF), self.hi.get(t, INF)
                    if k > 0:
                        rlo += k * tlo
                        rhi += k * thi
                    else:
                        rlo += k * thi
                        rhi += k * tlo
                if ks is None:
                    continue
                # ks*s + rest in [flo, fhi]  =>  ks*s in [flo - rhi, fhi - rlo]
                a, b = flo - rhi, fhi - rlo
                if a != a or b != b:
                    continue
                if ks > 0:
                    if a > -INF:
                        lo = max(lo, math.ceil(a / ks))
                    if b < INF:
                        hi = min(hi, math.floor(b / ks))
                else:
                    if b < INF:
                        lo = max(lo, math.ceil(b / ks))
                    if a > -INF:
                        hi = min(hi, math.floor(a / ks))
        return lo, hi

    def bounds(self, x):
        if not isinstance(x, Lin):
            return (x, x)
        lo = hi = x.c
        for s, k in x.terms.items():
            slo, shi = self.sym_bounds(s)
            if k > 0:
                lo += k * slo
                hi += k * shi
            else:
                lo += k * shi
                hi += k * slo
        if len(x.terms) >= 2 and self.forms:
            key, sgn, c = self._norm(x)
            fb = self.forms.get(key)
            if fb is not None:
                flo, fhi = fb
                if sgn > 0:
                    lo, hi = max(lo, flo + c), min(hi, fhi + c)
                else:
                    lo, hi = max(lo, -fhi + c), min(hi, -flo + c)
        return (lo, hi)

    def cmp(self, op, a, b):
        """decide a op b; returns True/False/None"""
        d = Lin.lift(a) - Lin.lift(b)
        lo, hi = self.bounds(d)
        if op == "Lt":
            if hi < 0:
                return True
            if lo >= 0:
                return False
        elif op == "Le":
            if hi <= 0:
                return True
            if lo > 0:
                return False
        elif op == "Gt":
            if lo > 0:
                return True
            if hi <= 0:
                return False
        elif op == "Ge":
            if lo >= 0:
                return True
            if hi < 0:
                return False
        elif op == "Eq":
            if lo == hi == 0:
                return True
            if lo > 0 or hi < 0:
                return False
        elif op == "Ne":
            if lo == hi == 0:
                return False
            if lo > 0 or hi < 0:
                return True
        return None

    def assume(self, op, a, b, truth):
        """refine bounds with (a op b) == truth when a - b is a single-symbol form"""
        if not truth:
            op = {"Lt": "Ge", "Le": "Gt", "Gt": "Le", "Ge": "Lt", "Eq": "Ne", "Ne": "Eq"}[op]
        d = Lin.lift(a) - Lin.lift(b)
        if len(d.terms) >= 2:
            # relational fact on the normalised term part T:  sgn*T + c  op  0
            key, sgn, c = self._norm(d)
            flo, fhi = self.forms.get(key, (-INF, INF))
            # bounds on v = sgn*T = d - c
            if op == "Lt":
                vlo, vhi = -INF, -c - 1
            elif op == "Le":
                vlo, vhi = -INF, -c
            elif op == "Gt":
                vlo, vhi = -c + 1, INF
            elif op == "Ge":
                vlo, vhi = -c, INF
            elif op == "Eq":
                vlo, vhi = -c, -c
            else:
                return
            if sgn < 0:
                vlo, vhi = -vhi, -vlo
            self.forms[key] = (max(flo, vlo), min(fhi, vhi))
            return
        if len(d.terms) != 1:
            return
        (s, k), = d.terms.items()
        c = d.c
        # k*s + c  op 0
        import math
        lo = self.lo.get(s, -INF)
        hi = self.hi.get(s, INF)

        def up(v):  # s <= v
            nonlocal hi
            hi = min(hi, v)

        def dn(v):  # s >= v
            nonlocal lo
            lo = max(lo, v)

        # solve for s
        if op in ("Lt", "Le", "Gt", "Ge"):
            strict = op in ("Lt", "Gt")
            less = op in ("Lt", "Le")
            if k < 0:
                less = not less
            # k*s + c < 0  <=>  s < -c/k (k>0)
            bound = -c / k
            if less:
                if strict:
                    v = math.ceil(bound) - 1
                else:
                    v = math.floor(bound)
                up(v)
            else:
                if strict:
                    v = math.floor(bound) + 1
                else:
                    v = math.ceil(bound)
                dn(v)
        elif op == "Eq":
            if (-c) % k == 0:
                v = (-c) // k
                up(v)
                dn(v)
        elif op == "Ne":
            if (-c) % k == 0:
                v = (-c) // k
                if lo == v:
                    lo = v + 1
                if hi == v:
                    hi = v - 1
        self.lo[s] = lo
        self.hi[s] = hi
