"""Per-property drivers: which rules are armed for which anchors (DESIGN §5)."""
import rules as R
from scen import Est

MOMENT_FAMILY = ["moments::Mean", "moments::Variance", "moments::Skewness", "moments::Kurtosis", "Moments4"]
HARNESS_MOMENTS = ["m4::M4", "m5::M5", "m6::M6", "m8::M8", "m10::M10"]


def cfgs(ctx):
    return ["A", "B"] if ctx.tier == "quick" else ["A", "B", "C", "D"]


VALUE_BOX = {"smin": 1e-30, "smax": 1e30, "nmax": 1e6}   # C01 value domain (properties C01-C04, C10)


def numeric(ctx, db, path, rules_, weighted=False, pair=False, accessor_args=None, laws=(), extra_contracts=None, e_extra=(), skip=(), only=None, mag_max=None, box=None):
    """run the shared scenarios of one estimator once and apply the selected numeric-structure rules"""
    import num_rules as N
    e = Est(db, path)
    if not e.exists():
        return None
    scen = N.est_scenarios(ctx, db, e, weighted=weighted, pair=pair, accessor_args=accessor_args, skip=skip, only=only)
    scen["contracts"] = extra_contracts or {}
    if "count" in rules_:
        R.r_count(ctx, db, e, db.cfg)
    N.r_prec(ctx, db, e, scen)
    if "dim" in rules_:
        N.r_dim(ctx, db, e, scen, extra_contracts)
    if "mag" in rules_ and "dim" in rules_:
        N.r_mag(ctx, db, e, scen, mag_max)
    if box and "dim" in rules_:
        N.r_mag_box(ctx, db, e, scen, box)
    if "sign" in rules_:
        N.r_sign(ctx, db, e, scen, weighted=weighted)
    if "div" in rules_:
        N.r_div(ctx, db, e, scen, weighted=weighted)
    if "shift" in rules_:
        ef = N.mean_fields(scen) | set(e_extra)
        if pair:
            efx = N.mean_fields(scen, ("mean_x",))
            efy = N.mean_fields(scen, ("mean_y",))
            N.r_shift(ctx, db, e, scen, efx, axis_params=(0,), label="X")
            N.r_shift(ctx, db, e, scen, efy, axis_params=(1,), label="Y")
            N.r_shift(ctx, db, e, scen, efx | efy, axis_params=(0, 1), label="X and Y jointly")
        else:
            N.r_shift(ctx, db, e, scen, ef, axis_params=(0,), label="X")
    if laws:
        R.laws_add_merge(ctx, db, e, laws, assume=R.weights_assumer(db, e, True) if weighted else None,
                         arg_assume=R.weighted_args if weighted else None)
    return e, scen


def surface(ctx, db, e, skip=(), weighted=False):
    """How estimators of this type come into being and are fed, whatever the property quantifies over:
    Default::default() is new(), clone()/clone_from are exact copies, estimate() is the headline statistic,
    extend/collect are add in a loop from the current state, and no inherent method shadows a trait method
    with different behaviour.  `skip` names the parts the property's driver arms itself."""
    import forward_rules as FW
    import fnode as F
    t = e.path
    mm = t.startswith("minmax")
    q = t.endswith("Quantile")
    if "default" not in skip:
        R.r_default_is_new(ctx, db, e, new_args=(lambda m: [F.lit(0.5)]) if q else None)
    if "clone" not in skip and not q:
        R.r_derived_clone(ctx, db, e)
        R.r_clone_from_exact(ctx, db, e, lambda m, nm, e=e: R.sym_self(m, e, nm))
    if "estimate" not in skip:
        FW.r_estimate_headline(ctx, db, e, assume=R.nonnan_state if mm else None)
    if "ingest" not in skip and t in INGEST_TYPES:
        FW.r_forward_ingest(ctx, db, e, max_items=2, state_assume=R.weights_assumer(db, e, False) if weighted else None)
    if "shadow" not in skip:
        R.r_shadow(ctx, db, e)


def moment_args(N_):
    return {"central_moment": [(p,) for p in range(0, N_ + 1)], "standardized_moment": [(p,) for p in range(0, N_ + 1)]}


def moment_contracts(N_):
    c = {}
    for p in range(0, N_ + 1):
        c["central_moment(%d)" % p] = ({"X": p}, "nonneg" if p == 2 else None, "I")
        c["standardized_moment(%d)" % p] = ({}, None, "I")
    return c


def c01(ctx):
    n = 0
    for cfg in ("B", "A"):
        db = ctx.db(cfg)
        for t in ("moments::Mean", "moments::Variance"):
            r = numeric(ctx, db, t, ("count", "dim", "sign", "div", "shift") if cfg == "B" else ("count",), box=dict(VALUE_BOX, order=2),
                        laws=("L1", "L2", "L3", "L4") if cfg == "B" else ())
            if r:
                n += 1
                if cfg == "B":
                    import num_laws as NL
                    NL.accessor_laws(ctx, db, r[0])
                    kind = t.split("::")[-1]
                    for k in ((1, 2, 3, 4) if ctx.tier == "quick" else (1, 2, 3, 4, 5, 6)):
                        NL.stream_definitions(ctx, db, r[0], k, NL.defs_moments(kind), min_k={"sample_variance": 2, "variance_of_mean": 2, "error": 2})
                    # the observation points of C01 include Estimate::estimate, and "added one at a time" streams may
                    # start from a collected (possibly empty) estimator: both are exactly the headline accessor / the add loop
                    import forward_rules as FW
                    FW.r_estimate_headline(ctx, db, r[0])
                    FW.r_forward_ingest(ctx, db, r[0], max_items=2)
                    surface(ctx, db, r[0], skip=("estimate", "ingest", "shadow"))
    ctx.floor("Mean/Variance analysed over cfgs", n, 4)


def c03(ctx):
    import num_laws as NL
    db = ctx.db("B")
    n = 0
    for t in ("moments::Skewness", "moments::Kurtosis"):
        r = numeric(ctx, db, t, ("count", "dim", "sign", "div", "shift"), laws=("L1", "L2", "L3", "L4"), box=dict(VALUE_BOX, order=4))
        if not r:
            continue
        n += 1
        NL.accessor_laws(ctx, db, r[0])
        # "for every sequence": extend/collect (by value and by reference) are add in a loop from the current state
        import forward_rules as FW
        FW.r_forward_ingest(ctx, db, r[0], max_items=2)
        surface(ctx, db, r[0], skip=("ingest", "shadow"))
        kind = t.split("::")[-1]
        for k in ((2, 3, 4, 5) if ctx.tier == "quick" else (2, 3, 4, 5, 6, 7)):
            NL.stream_definitions(ctx, db, r[0], k, NL.defs_moments(kind), min_k={"sample_variance": 2, "error_mean": 2, "skewness": 2, "kurtosis": 2})
    ctx.floor("Skewness/Kurtosis analysed", n, 2)


def moment_types(ctx, db):
    out = [("Moments4", 4)]
    for t, N_ in (("m4::M4", 4), ("m5::M5", 5), ("m6::M6", 6), ("m8::M8", 8), ("m10::M10", 10)):
        if ctx.tier == "quick" and t in ("m4::M4", "m8::M8"):
            continue
        out.append((t, N_))
    return [(t, N_) for t, N_ in out if Est(db, t).exists()]


def c04(ctx):
    import num_laws as NL
    n = 0
    for cfg in ("B", "A"):
        db = ctx.db(cfg)
        for t, N_ in moment_types(ctx, db):
            if cfg == "A" and t != "m5::M5":
                continue   # cfg A (serde arm of define_moments_inner!) is the same expansion; one instantiation cross-checks it
            r = numeric(ctx, db, t, ("count", "dim", "mag", "sign", "div", "shift"), accessor_args=moment_args(N_), mag_max=N_,
                        skip=("sample_skewness", "sample_excess_kurtosis", "sample_variance"), box=dict(VALUE_BOX, order=N_),
                        extra_contracts=moment_contracts(N_), laws=("L1", "L2", "L3", "L4") if (N_ <= 6 or ctx.tier == "thorough") else ("L1", "L2", "L3"))
            if not r:
                continue
            n += 1
            R.r_binom(ctx, db, t, N_)
            if cfg == "B":
                surface(ctx, db, r[0], skip=("shadow",))
            ks = (2, 3, N_ + 1) if ctx.tier == "quick" else tuple(range(2, N_ + 3))
            defs = {k_: v for k_, v in NL.defs_moments("Moments", N_).items() if k_ not in ("sample_skewness", "sample_excess_kurtosis", "sample_variance")}
            for k in ks:
                if ctx.tier == "quick" and N_ >= 8 and k > 6:
                    k = 6
                NL.stream_definitions(ctx, db, r[0], k, defs)
    ctx.floor("define_moments! instantiations analysed", n, 5)


def merge_stability(ctx, db, t):
    """numerical structure of merge (and add) of one moment-family type: dimensions, shift behaviour
    (no intermediate carries a common offset to a power > 1), division guards and the value-box grading
    (the accessors are evaluated too: they fix the dimension and count-degree of every field)"""
    order = {"moments::Mean": 1, "moments::Variance": 2, "moments::Skewness": 3, "moments::Kurtosis": 4, "Moments4": 4}.get(t)
    if order is None:
        order = int(t.split("::M")[-1])
    if t in ("Moments4",) or "::M" in t:
        return numeric(ctx, db, t, ("dim", "shift", "div"), accessor_args=moment_args(order), extra_contracts=moment_contracts(order),
                       skip=("sample_skewness", "sample_excess_kurtosis", "sample_variance"), box=dict(VALUE_BOX, order=order))
    return numeric(ctx, db, t, ("dim", "shift", "div"), box=dict(VALUE_BOX, order=order))


def c02(ctx):
    db = ctx.db("B")
    n = 0
    for t in MOMENT_FAMILY + HARNESS_MOMENTS:
        e = Est(db, t)
        if not e.exists():
            continue
        n += 1
        import time
        t0 = time.time()
        R.r_count(ctx, db, e, "B")
        which = ("L2", "L3", "L4")
        R.laws_add_merge(ctx, db, e, which)
        R.r_ident_merge(ctx, db, e)
        surface(ctx, db, e, skip=("shadow",))     # the chunks that are merged are built by collect/extend/clone/Default
        if ctx.tier == "thorough" or t != "m8::M8":
            merge_stability(ctx, db, t)
        print(t, "%.1fs" % (time.time() - t0))
    ctx.floor("Merge types of the moment family analysed", n, 10)


EST_KINDS = [
    ("moments::Mean", "Mean", {}), ("moments::Variance", "Variance", {}), ("moments::Skewness", "Skewness", {}),
    ("moments::Kurtosis", "Kurtosis", {}), ("Moments4", "Moments", {"N": 4}),
    ("m4::M4", "Moments", {"N": 4}), ("m5::M5", "Moments", {"N": 5}), ("m6::M6", "Moments", {"N": 6}),
    ("m8::M8", "Moments", {"N": 8}), ("m10::M10", "Moments", {"N": 10}),
    ("weighted_mean::WeightedMean", "WeightedMean", {"weighted": True}),
    ("weighted_mean::WeightedMeanWithError", "WeightedMeanWithError", {"weighted": True}),
    ("covariance::Covariance", "Covariance", {}), ("minmax::Min", "Min", {}), ("minmax::Max", "Max", {}),
]


def quantile_ctor(m):
    import fnode as F
    p = F.atom("p")
    m.order.set_nan(p, False)
    m.order.assume("Ge", p, F.ZERO, True)
    m.order.assume("Le", p, F.ONE, True)
    return [p]


def other_cfgs(ctx, fn):
    """thorough tier: the same rules on --no-default-features (cfg C) and --features std (cfg D):
    the any(std, libm) gates must only remove code"""
    if ctx.tier != "thorough":
        return
    for cfg in ("C", "D"):
        db = ctx.db(cfg)
        fn(db, cfg)


def c16(ctx):
    def extra(db, cfg):
        for path, kind, kw in EST_KINDS:
            e = Est(db, path)
            if e.exists() and path in ("moments::Mean", "moments::Variance", "Moments4", "m5::M5", "covariance::Covariance", "minmax::Min",
                                       "weighted_mean::WeightedMeanWithError"):
                R.r_sentinel(ctx, db, e, kind, N=kw.get("N"), weighted=kw.get("weighted", False))
    other_cfgs(ctx, extra)
    db = ctx.db("B")
    cells = 0
    types = 0
    for path, kind, kw in EST_KINDS:
        e = Est(db, path)
        if not e.exists():
            continue
        if ctx.tier == "quick" and path in ("m8::M8", "m10::M10", "m4::M4"):
            continue
        types += 1
        cells += R.r_sentinel(ctx, db, e, kind, N=kw.get("N"), weighted=kw.get("weighted", False))
        leaf = R.count_leaf(ctx, db, e)
        if e.add and kind not in ("Min", "Max"):
            R.r_const_induction(ctx, db, e, leaf, weighted=kw.get("weighted", False))
        # states of the table reached through Default or through merges with empty estimators
        R.r_default_is_new(ctx, db, e)
        R.r_ident_merge(ctx, db, e, assume=R.nonnan_state if kind in ("Min", "Max") else None)
        # an add-only stream may be fed through extend/collect: those are add in a loop, exactly
        if path in INGEST_TYPES:
            import forward_rules as FW
            FW.r_forward_ingest(ctx, db, e, max_items=2, state_assume=R.weights_assumer(db, e, False) if kw.get("weighted") else None)
        surface(ctx, db, e, skip=("default", "ingest"), weighted=kw.get("weighted", False))
    q = Est(db, "quantile::Quantile")
    if q.exists():
        types += 1
        cells += R.r_sentinel(ctx, db, q, "Quantile", ctor_args=quantile_ctor)
        import fnode as F
        R.r_default_is_new(ctx, db, q, new_args=lambda m: [F.lit(0.5)])
    ctx.floor("estimator types with a sentinel table", types, 11)
    ctx.floor("sentinel table cells evaluated", cells, 120)


HIST_TYPES = [("hist::Histogram", 10), ("h1::Histogram", 1), ("h2::Histogram", 2), ("h3::Histogram", 3),
              ("h4::Histogram", 4), ("h10::Histogram", 10), ("h100::Histogram", 100)]
MERGE_TYPES = ["moments::Mean", "moments::Variance", "moments::Skewness", "moments::Kurtosis", "Moments4",
               "m5::M5", "m6::M6", "m8::M8", "m10::M10", "minmax::Min", "minmax::Max",
               "weighted_mean::WeightedMean", "weighted_mean::WeightedMeanWithError", "covariance::Covariance"]


def c11(ctx):
    def extra(db, cfg):
        for t in MERGE_TYPES:
            e = Est(db, t)
            if e.exists() and e.merge:
                R.r_ident_merge(ctx, db, e, assume=R.nonnan_state if t.startswith("minmax") else None)
                if e.m("len", None):
                    R.r_count(ctx, db, e, cfg)
    other_cfgs(ctx, extra)
    db = ctx.db("B")
    n = 0
    for t in MERGE_TYPES:
        e = Est(db, t)
        if not e.exists() or not e.merge:
            continue
        if ctx.tier == "quick" and t in ("m8::M8", "m10::M10"):
            continue
        n += 1
        R.r_ident_merge(ctx, db, e, assume=R.nonnan_state if t.startswith("minmax") else None)
        if e.m("len", None):
            R.r_count(ctx, db, e, "B")
        R.r_derived_clone(ctx, db, e)
        R.r_clone_from_exact(ctx, db, e, lambda m, nm, e=e: R.sym_self(m, e, nm))
        # "a freshly constructed empty estimator" can also come from Default
        R.r_default_is_new(ctx, db, e)
        surface(ctx, db, e, skip=("default", "clone"), weighted=t.startswith("weighted_mean"))
    ctx.floor("Merge impls analysed (non-histogram)", n, 11)
    nh = 0
    for t, ln in HIST_TYPES:
        if ctx.tier == "quick" and ln > 10:
            continue
        e = Est(db, t)
        if not e.exists():
            continue
        nh += 1
        R.r_hist_merge_identity(ctx, db, e, ln)
    ctx.floor("histogram Merge impls analysed", nh, 5)
    if "A" in cfgs(ctx):
        dba = ctx.db("A")
        e = Est(dba, "histogram_const::Histogram")
        if e.exists():
            for ln in (1, 3):
                R.r_hist_merge_identity(ctx, dba, e, ln, consts={"LEN": ln})
    R.r_no_interior_mutability(ctx, db)


def quantile_est(ctx, cfg="B"):
    import quantile_rules as Q
    db = ctx.db(cfg)
    e = Est(db, Q.QPATH)
    if not e.exists() or not e.add or not e.new:
        ctx.floor("Quantile type with new/add present", 0, 1)
        return None, None, None
    roles, _ = Q.role_fields(db, e)
    if set(roles) != {"q", "n", "m", "dm"}:
        ctx.ob("R-P2", "roles", Q.QPATH, "-", False, "cannot identify heights/positions/desired/increments arrays from new(p): %s" % roles, inc=True)
        return None, None, None
    return db, e, roles


def c05_default(ctx, db, e):
    """`Default` (used by concatenate! for every field) must be a correctly initialised estimator"""
    import fnode as F
    R.r_default_is_new(ctx, db, e, new_args=lambda m: [F.lit(0.5)])


def c05(ctx):
    import quantile_rules as Q
    db, e, roles = quantile_est(ctx)
    if e is None:
        return
    Q.r_p2_init(ctx, db, e, roles)
    c05_default(ctx, db, e)
    surface(ctx, db, e, skip=("default",))
    Q.r_middle_marker(ctx, db, e, roles)
    n = Q.r_p2_step(ctx, db, e, roles)
    ctx.floor("abstract paths of Quantile::add (>= 5 observations) compared with the specification", n, 100)


def c07(ctx):
    import quantile_rules as Q
    db, e, roles = quantile_est(ctx)
    if e is None:
        return
    near = [b + d for b in (0.25, 0.5, 0.75) for d in (-1e-10, 1e-10)]
    grid = sorted(set([k / 8.0 for k in range(0, 9)] + near)) if ctx.tier == "quick" else sorted(set(
        [k / 16.0 for k in range(0, 17)] + [k / 3.0 for k in range(4)] + [0.1, 0.3, 0.7, 0.9, 1e-9, 1 - 1e-9] + near +
        [b + d for b in (0.25, 0.5, 0.75) for d in (-1e-6, 1e-6, -1e-13, 1e-13)]))
    n = Q.r_small_quantile(ctx, db, e, roles, grid)
    ctx.floor("(n, p) grid cases of the small-sample quantile", n, 36)
    # the small states quantile() is analysed on are exactly what add builds from 1..4 observations
    Q.r_count_small(ctx, db, e, roles)
    # ... from `new(p)`; an estimator that concatenate! builds through `Default` starts from the same state (p = 0.5)
    c05_default(ctx, db, e)
    surface(ctx, db, e, skip=("default",))


def c15(ctx):
    import quantile_rules as Q
    db, e, roles = quantile_est(ctx)
    if e is None:
        return
    Q.r_quantile_ctor(ctx, db, e)
    R.r_count(ctx, db, e, "B", expect_merge=False, check_add=False)
    Q.r_count_small(ctx, db, e, roles)
    # extreme markers and the count follow the specified step
    # extreme markers capture min/max, the count is exact, `dm` (hence p()) has no writer, and the
    # acceptance test keeps interior heights between their neighbours: all follow from the specified step
    Q.r_p2_step(ctx, db, e, roles, rule="R-P2", label=":bookkeeping", sorted_rule=True)
    Q.r_p2_init(ctx, db, e, roles)
    Q.r_middle_marker(ctx, db, e, roles)
    Q.r_small_quantile(ctx, db, e, roles, [0.0, 0.5, 1.0])
    R.r_sentinel(ctx, db, e, "Quantile", ctor_args=quantile_ctor)
    surface(ctx, db, e)


def hist_types(ctx, db):
    out = []
    for t, ln in HIST_TYPES:
        if ctx.tier == "quick" and (ln > 4 and t != "hist::Histogram"):
            continue
        e = Est(db, t)
        if e.exists():
            out.append((e, ln, None))
    return out


def hist_const_types(ctx):
    if "A" not in cfgs(ctx):
        return None, []
    dba = ctx.db("A")
    e = Est(dba, "histogram_const::Histogram")
    if not e.exists():
        return dba, []
    lens = (1, 3) if ctx.tier == "quick" else (1, 2, 3, 4, 10)
    return dba, [(e, ln, {"LEN": ln}) for ln in lens]


def c06(ctx):
    import hist_rules as H
    db = ctx.db("B")
    n = 0
    for e, ln, consts in hist_types(ctx, db):
        n += 1
        H.r_find_add(ctx, db, e, ln, consts)
        if ln <= 4:
            # repeated edges (zero-width bins): the documented contract of binary_search_by leaves the
            # returned index open; decided for the algorithm shipped with the installed toolchain
            H.r_find_add(ctx, db, e, ln, consts, strict=False, bsearch="core")
        # find() is decided for sorted edges: both constructors must establish that invariant
        H.r_const_width_monotone(ctx, db, e, ln, consts)
        H.r_accessors(ctx, db, e, ln, consts)     # range_min()/range_max() of the statement are the stored outer edges
        if ln <= 3:
            H.r_from_ranges(ctx, db, e, ln, consts)
    dba, hs = hist_const_types(ctx)
    for e, ln, consts in hs:
        n += 1
        H.r_find_add(ctx, dba, e, ln, consts)
        if ln <= 4:
            H.r_find_add(ctx, dba, e, ln, consts, strict=False, bsearch="core")   # repeated edges, as for the macro sibling
        H.r_const_width_monotone(ctx, dba, e, ln, consts)
        H.r_accessors(ctx, dba, e, ln, consts)
    ctx.floor("histogram instantiations analysed (find/add)", n, 6)
    ctx.notes.append("decided for strictly increasing edges under the documented contract of [T]::binary_search_by; with repeated edges the bin "
                     "returned for a sample equal to the repeated edge depends on which equal index the standard library returns (unspecified): "
                     "those cases (LEN <= 4) are decided for the binary-search algorithm of the installed toolchain's core (rustc 1.96/1.97) and are toolchain-specific")
    ctx.trust("core::slice::binary_search_by algorithm of the installed toolchain (only for repeated edges)")


def c12(ctx):
    import hist_rules as H
    db = ctx.db("B")
    n = 0
    for e, ln, consts in hist_types(ctx, db):
        if ln <= 4 or ctx.tier == "thorough":
            n += H.r_from_ranges(ctx, db, e, ln, consts)
        H.r_const_width(ctx, db, e, ln, consts)
        H.r_const_width_monotone(ctx, db, e, ln, consts)
        H.r_accessors(ctx, db, e, ln, consts)
    dba, hs = hist_const_types(ctx)
    for e, ln, consts in hs:
        if ln <= 4:
            n += H.r_from_ranges(ctx, dba, e, ln, consts)
        H.r_const_width(ctx, dba, e, ln, consts)
        H.r_const_width_monotone(ctx, dba, e, ln, consts)
    ctx.floor("abstract paths of from_ranges compared with the C12 table", n, 60)


def c13(ctx):
    import hist_rules as H
    db = ctx.db("B")
    n = 0
    for e, ln, consts in hist_types(ctx, db):
        n += 1
        H.r_merge_addassign(ctx, db, e, ln, consts)
        H.r_scale_reset(ctx, db, e, ln, consts)
        H.r_iter_views(ctx, db, e, ln, consts)
        H.r_iter_overrides(ctx, db, e, ln, consts)
        H.r_hist_clone(ctx, db, e, ln, consts)
        if ln <= 10:
            H.r_views_special_values(ctx, db, e, ln, consts)
    dba, hs = hist_const_types(ctx)
    for e, ln, consts in hs:
        n += 1
        H.r_merge_addassign(ctx, dba, e, ln, consts)
        H.r_scale_reset(ctx, dba, e, ln, consts)
        H.r_iter_views(ctx, dba, e, ln, consts)
        H.r_iter_overrides(ctx, dba, e, ln, consts)
        H.r_hist_clone(ctx, dba, e, ln, consts)
        if ln <= 10:
            H.r_views_special_values(ctx, dba, e, ln, consts)
    ctx.floor("histogram instantiations analysed (merge/views)", n, 6)


def c14(ctx):
    import minmax_rules as MM
    n = 0
    for cfg in ("B", "A"):
        db = ctx.db(cfg)
        for t, is_min in (("minmax::Min", True), ("minmax::Max", False)):
            e = Est(db, t)
            if not e.exists():
                continue
            n += 1
            MM.r_minmax(ctx, db, e, is_min)
            if cfg == "B":
                R.r_ident_merge(ctx, db, e, assume=R.nonnan_state)
                R.r_default_is_new(ctx, db, e)
                import forward_rules as FW
                FW.r_forward_ingest(ctx, db, e)
                surface(ctx, db, e, skip=("default", "ingest"))
            else:
                # "collect" includes rayon's parallel collect when the feature is on: fold(new, add).reduce(new, merge)
                import forward_rules as FW
                FW.r_rayon(ctx, db, e, assume=R.nonnan_state)
    ctx.floor("Min/Max types analysed", n, 4)


CAT_SPECS = {
    "cat::MinMax": [("min", "minmax::Min", ["min"]), ("max", "minmax::Max", ["max"])],
    "cat::OnlyMean": [("mean", "moments::Mean", ["mean"])],
    "cat::MeanVar": [("var", "moments::Variance", ["mean", "sample_variance", "population_variance"])],
    "cat::Three": [("lo", "minmax::Min", ["min"]), ("v", "moments::Variance", ["mean", "sample_variance"]), ("hi", "minmax::Max", ["max"])],
    "cat::WithQuantile": [("quantile", "quantile::Quantile", ["quantile"]), ("mean", "moments::Mean", ["mean"])],
    "cat::Shape": [("skewness", "moments::Skewness", ["skewness"]), ("kurtosis", "moments::Kurtosis", ["kurtosis"])],
    "cat::Four": [("lo", "minmax::Min", ["min"]), ("hi", "minmax::Max", ["max"]), ("k", "moments::Kurtosis", ["mean", "kurtosis", "skewness"]),
                  ("q", "quantile::Quantile", ["quantile"])],
}
INGEST_TYPES = ["moments::Mean", "moments::Variance", "moments::Skewness", "moments::Kurtosis", "Moments4", "m5::M5", "m6::M6",
                "minmax::Min", "minmax::Max", "weighted_mean::WeightedMean", "weighted_mean::WeightedMeanWithError",
                "covariance::Covariance"]
RAYON_TYPES = ["moments::Mean", "moments::Variance", "moments::Skewness", "moments::Kurtosis", "Moments4", "minmax::Min", "minmax::Max",
               "m4::M4", "m5::M5", "m6::M6", "m8::M8", "m10::M10"]
SERDE_TYPES = ["moments::Mean", "moments::Variance", "moments::Skewness", "moments::Kurtosis", "Moments4", "minmax::Min", "minmax::Max",
               "quantile::Quantile", "weighted_mean::WeightedMean", "weighted_mean::WeightedMeanWithError", "covariance::Covariance",
               "hist::Histogram", "m4::M4", "m5::M5", "m6::M6", "m8::M8", "m10::M10", "h1::Histogram", "h2::Histogram", "h3::Histogram",
               "h4::Histogram", "h10::Histogram", "h100::Histogram"]


def c20(ctx):
    import forward_rules as FW
    db = ctx.db("B")
    n_ing = n_est = n_cat = 0
    for t in INGEST_TYPES:
        e = Est(db, t)
        if not e.exists():
            continue
        n_ing += FW.r_forward_ingest(ctx, db, e, max_items=2 if ctx.tier == "quick" else 3,
                                     state_assume=R.nonnan_state if t.startswith("minmax") else None)
        n_est += FW.r_estimate_headline(ctx, db, e, assume=R.nonnan_state if t.startswith("minmax") else None)
        R.r_default_is_new(ctx, db, e)
    q = Est(db, "quantile::Quantile")
    if q.exists():
        import fnode as F
        n_est += FW.r_estimate_headline(ctx, db, q)
        R.r_default_is_new(ctx, db, q, new_args=lambda m: [F.lit(0.5)])
    for path, spec in CAT_SPECS.items():
        if ctx.tier == "quick" and path in ("cat::Four", "cat::WithQuantile"):
            # Quantile::add has thousands of abstract paths; the two Quantile-bearing shapes run in the thorough tier
            continue
        n_cat += FW.r_concatenate(ctx, db, path, spec)
        e = Est(db, path)
        if e.exists() and path not in ("cat::Four", "cat::WithQuantile"):
            n_ing += FW.r_forward_ingest(ctx, db, e, max_items=2)
    ctx.floor("FromIterator/Extend impls analysed", n_ing, 40)
    ctx.floor("Estimate::estimate impls analysed", n_est, 7)
    ctx.floor("concatenate! obligations", n_cat, 20)


def c19(ctx):
    import forward_rules as FW
    db = ctx.db("A")
    n = 0
    for t in RAYON_TYPES:
        e = Est(db, t)
        if not e.exists():
            continue
        if ctx.tier == "quick" and t in ("m8::M8", "m10::M10", "m4::M4"):
            continue
        n += FW.r_rayon(ctx, db, e, assume=R.nonnan_state if t.startswith("minmax") else None)
        # preconditions rayon's fold/reduce contract needs: exact identity and the merge laws
        R.r_ident_merge(ctx, db, e, assume=R.nonnan_state if t.startswith("minmax") else None)
        if t in INGEST_TYPES:
            surface(ctx, db, e, skip=("ingest",))    # the reduce tree clones, merges into Default/new states
        if not t.startswith("minmax"):
            R.laws_add_merge(ctx, db, e, ("L2", "L3", "L4"))
            R.r_count(ctx, db, e, "A")
            merge_stability(ctx, db, t)   # "within the envelope" needs a cancellation-free merge (C02)
            if t == "Moments4":
                R.r_binom(ctx, db, t, 4)   # the binomial rows the merge of every define_moments! type draws on
    ctx.floor("from_par_iter impls analysed", n, 18)


def c18(ctx):
    import forward_rules as FW
    db = ctx.db("A")
    n = 0
    for t in SERDE_TYPES:
        n += FW.r_serde(ctx, db, t)
    ctx.floor("state structs with serde impls analysed", n, 20)
    seen = sum(1 for a in db.adts.values() for v in a["variants"] for f in v["fields"] if any("serde" in x for x in f.get("ast_attrs", [])))
    ctx.floor("serde field attributes visible in the expanded AST (positive control: BigArray on histogram arrays)", seen, 14)
    R.r_no_interior_mutability(ctx, db)
    # nested state reachable from the listed structs must itself be listed
    canon_serde = {db.canon(t) for t in SERDE_TYPES}
    for t in SERDE_TYPES:
        a = db.adts.get(db.canon(t))
        if not a:
            continue
        for f in a["variants"][0]["fields"]:
            ty = f["ty"]
            while ty["k"] == "array":
                ty = ty["elem"]
            if ty["k"] == "adt":
                ctx.ob("R-SERDE", "nested-state-covered", t, "-", ty["path"] in canon_serde, "field %s has state type %s" % (f["name"], ty["path"]), nontrivial=False)


def c10(ctx):
    import num_laws as NL
    import num_rules as N
    db = ctx.db("B")
    n = 0
    fam = [("moments::Variance", "Variance"), ("moments::Skewness", "Skewness"), ("moments::Kurtosis", "Kurtosis"),
           ("weighted_mean::WeightedMeanWithError", "WMWE")]
    for t, kind in fam:
        e = Est(db, t)
        if not e.exists():
            continue
        n += 1
        NL.accessor_laws(ctx, db, e)
        R.r_count(ctx, db, e, "B")    # the n of n/(n-1) is the number of observations, through add and merge
    for t, N_ in moment_types(ctx, db):
        e = Est(db, t)
        n += 1
        NL.accessor_laws(ctx, db, e)
        R.r_count(ctx, db, e, "B")
        # the sample may have been assembled from merged parts: merging one more observation is adding it (L2), in either order (L3)
        R.laws_add_merge(ctx, db, e, ("L2", "L3"))
        NL.moments_sample_laws(ctx, db, e)
        scen = N.est_scenarios(ctx, db, e, only=("sample_variance", "sample_skewness", "sample_excess_kurtosis"), nmin_generic=4,
                               accessor_args={"central_moment": [(2,), (3,), (4,)]})
        N.r_dim(ctx, db, e, scen, moment_contracts(4))
        N.r_div(ctx, db, e, scen)
        defs = {k_: v for k_, v in NL.defs_moments("Moments", N_).items() if k_ in ("sample_skewness", "sample_excess_kurtosis", "sample_variance")}
        for k in ((2, 3, 4, 5) if ctx.tier == "quick" else (2, 3, 4, 5, 6, 7)):
            NL.stream_definitions(ctx, db, e, k, defs, key="L0", min_k={"sample_variance": 2, "sample_skewness": 3, "sample_excess_kurtosis": 4})
        R.r_sentinel(ctx, db, e, "Moments", N=N_, only=("sample_variance", "sample_skewness", "sample_excess_kurtosis"))
        for k in (2, 3):
            sc = N.est_scenarios(ctx, db, e, only=("sample_variance", "sample_skewness"), count_exact=k)
            N.r_div(ctx, db, e, sc, tag="n=%d:" % k)
    for t, kind in fam[:3]:
        e = Est(db, t)
        if e.exists():
            R.r_sentinel(ctx, db, e, kind, only=("sample_variance", "variance_of_mean", "error", "error_mean"))
    # "for every finite sequence": the sequence may arrive through extend / collect (by value or by reference)
    # and, with the rayon feature, through a parallel collect — each must be add in a loop / fold(add).reduce(merge)
    import forward_rules as FW
    ing = 0
    for t in [t for t, _ in fam] + [t for t, _ in moment_types(ctx, db)]:
        e = Est(db, t)
        if e.exists() and t in INGEST_TYPES:
            ing += 1
            FW.r_forward_ingest(ctx, db, e, max_items=2,
                                state_assume=R.weights_assumer(db, e, False) if t.endswith("WeightedMeanWithError") else None)
        if e.exists():
            surface(ctx, db, e, skip=("ingest", "shadow"), weighted=t.endswith("WeightedMeanWithError"))
    dba = ctx.db("A")
    for t in ("moments::Variance", "moments::Kurtosis", "Moments4", "m5::M5"):
        e = Est(dba, t)
        if e.exists():
            ing += 1
            FW.r_rayon(ctx, dba, e)
    ctx.floor("types with bias-corrected statistics analysed", n, 8)
    ctx.floor("ingestion paths of those types analysed", ing, 8)


def weighted_defs(kind):
    import num_laws as NL
    F_ = NL
    sw = lambda o: F_.fsum([a[1] for a in o])
    swx = lambda o: F_.fsum([F_.fmul(a[1], a[0]) for a in o])
    sww = lambda o: F_.fsum([F_.fmul(a[1], a[1]) for a in o])
    xs = lambda o: [a[0] for a in o]
    d = {}
    if kind == "WeightedMean":
        d["mean"] = lambda o: F_.fdiv(swx(o), sw(o))
        d["sum_weights"] = sw
    else:
        d["weighted_mean"] = lambda o: F_.fdiv(swx(o), sw(o))
        d["sum_weights"] = sw
        d["sum_weights_sq"] = sww
        d["effective_len"] = lambda o: F_.fdiv(F_.fmul(sw(o), sw(o)), sww(o))
        d["unweighted_mean"] = lambda o: F_.mean_of(xs(o))
        d["population_variance"] = lambda o: F_.central(xs(o), 2)
        d["sample_variance"] = lambda o: F_.fdiv(F_.fmul(F_.central(xs(o), 2), F_.flit(len(o))), F_.flit(len(o) - 1))
        d["variance_of_weighted_mean"] = lambda o: F_.fmul(F_.fdiv(F_.fmul(F_.central(xs(o), 2), F_.flit(len(o))), F_.flit(len(o) - 1)),
                                                           F_.fdiv(sww(o), F_.fmul(sw(o), sw(o))))
    return d


def cov_defs():
    import num_laws as NL
    import fnode as F
    F_ = NL
    xs = lambda o: [a[0] for a in o]
    ys = lambda o: [a[1] for a in o]

    def co(o):
        mx, my = F_.mean_of(xs(o)), F_.mean_of(ys(o))
        return F_.fsum([F_.fmul(F_.fsub(a[0], mx), F_.fsub(a[1], my)) for a in o])
    d = {
        "mean_x": lambda o: F_.mean_of(xs(o)), "mean_y": lambda o: F_.mean_of(ys(o)),
        "population_variance_x": lambda o: F_.central(xs(o), 2), "population_variance_y": lambda o: F_.central(ys(o), 2),
        "sample_variance_x": lambda o: F_.fdiv(F_.fmul(F_.central(xs(o), 2), F_.flit(len(o))), F_.flit(len(o) - 1)),
        "sample_variance_y": lambda o: F_.fdiv(F_.fmul(F_.central(ys(o), 2), F_.flit(len(o))), F_.flit(len(o) - 1)),
        "population_covariance": lambda o: F_.fdiv(co(o), F_.flit(len(o))),
        "sample_covariance": lambda o: F_.fdiv(co(o), F_.flit(len(o) - 1)),
        "pearson": lambda o: F_.fdiv(co(o), F.fn("sqrt", F_.fmul(F_.fmul(F_.central(xs(o), 2), F_.flit(len(o))), F_.fmul(F_.central(ys(o), 2), F_.flit(len(o)))))),
    }
    return d


def c08(ctx):
    import num_laws as NL
    import num_rules as N
    import forward_rules as FW
    db = ctx.db("B")
    n = 0
    for t, kind, wstats in (("weighted_mean::WeightedMean", "WeightedMean", ("mean", "sum_weights", "is_empty")),
                            ("weighted_mean::WeightedMeanWithError", "WeightedMeanWithError",
                             ("weighted_mean", "sum_weights", "sum_weights_sq"))):
        r = numeric(ctx, db, t, ("dim", "sign", "div", "shift") + (("count",) if kind != "WeightedMean" else ()), weighted=True, box=dict(VALUE_BOX, order=2),
                    laws=("L1", "L2", "L3", "L4"))
        if not r:
            continue
        n += 1
        e, scen = r
        N.r_zerow(ctx, db, e, wstats)
        N.r_convex(ctx, db, e, scen, N.mean_fields(scen), weighted=True)
        R.r_ident_merge(ctx, db, e)
        FW.r_forward_ingest(ctx, db, e, max_items=2)
        surface(ctx, db, e, skip=("ingest",), weighted=True)
        NL.accessor_laws(ctx, db, e)
        for k in ((1, 2, 3) if ctx.tier == "quick" else (1, 2, 3, 4, 5)):
            NL.stream_definitions(ctx, db, e, k, weighted_defs(kind), arity=2, build_args="weighted",
                                  min_k={"sample_variance": 2, "variance_of_weighted_mean": 2})
    ctx.floor("weighted estimators analysed", n, 2)


def c09(ctx):
    import num_laws as NL
    import num_rules as N
    import forward_rules as FW
    db = ctx.db("B")
    r = numeric(ctx, db, "covariance::Covariance", ("count", "dim", "sign", "div", "shift"), pair=True, laws=("L1", "L2", "L3", "L4"), box=dict(VALUE_BOX, order=2))
    n = 0
    if r:
        n = 1
        e, scen = r
        R.r_ident_merge(ctx, db, e)
        FW.r_forward_ingest(ctx, db, e, max_items=2)
        surface(ctx, db, e, skip=("ingest", "shadow"))
        for k in ((1, 2, 3, 4) if ctx.tier == "quick" else (1, 2, 3, 4, 5)):
            NL.stream_definitions(ctx, db, e, k, cov_defs(), arity=2, build_args="pair",
                                  min_k={"sample_variance_x": 2, "sample_variance_y": 2, "sample_covariance": 2, "pearson": 2})
        NL.cov_swap(ctx, db, e, 3)
    ctx.floor("Covariance analysed", n, 1)


def c17(ctx):
    import num_rules as N
    db = ctx.db("B")
    n = 0
    specs = [("moments::Mean", {}, ()), ("moments::Variance", {}, ()), ("moments::Skewness", {}, ()), ("moments::Kurtosis", {}, ()),
             ("covariance::Covariance", {"pair": True}, ()),
             ("weighted_mean::WeightedMean", {"weighted": True}, ()), ("weighted_mean::WeightedMeanWithError", {"weighted": True}, ())]
    for t, kw, _ in specs:
        e = Est(db, t)
        if not e.exists():
            continue
        n += 1
        scen = N.est_scenarios(ctx, db, e, **kw)
        # "whenever defined" is decided by the sample size: it must be exact through add and merge
        if not t.endswith("::WeightedMean"):
            R.r_count(ctx, db, e, "B")
        # the range clauses presuppose scale-free arithmetic and emptiness tests
        N.r_dim(ctx, db, e, scen)
        N.r_sign(ctx, db, e, scen, weighted=kw.get("weighted", False))
        if kw.get("pair"):
            N.r_convex(ctx, db, e, scen, N.mean_fields(scen, ("mean_x",)), axis_params=(0,), label="X")
            N.r_convex(ctx, db, e, scen, N.mean_fields(scen, ("mean_y",)), axis_params=(1,), label="Y")
            N.r_underflow(ctx, db, e, scen, N.mean_fields(scen, ("mean_x",)), axis_params=(0,), label="X")
            N.r_underflow(ctx, db, e, scen, N.mean_fields(scen, ("mean_y",)), axis_params=(1,), label="Y")
            N.r_shift(ctx, db, e, scen, N.mean_fields(scen, ("mean_x",)), axis_params=(0,), label="X")
            N.r_shift(ctx, db, e, scen, N.mean_fields(scen, ("mean_y",)), axis_params=(1,), label="Y")
            N.r_shift(ctx, db, e, scen, N.mean_fields(scen, ("mean_x", "mean_y")), axis_params=(0, 1), label="X and Y jointly")
        else:
            N.r_convex(ctx, db, e, scen, N.mean_fields(scen), weighted=kw.get("weighted", False))
            N.r_underflow(ctx, db, e, scen, N.mean_fields(scen))
            N.r_shift(ctx, db, e, scen, N.mean_fields(scen))
        if kw.get("weighted"):
            # "contributing observation": a zero-weight observation must be invisible to the weighted mean
            N.r_zerow(ctx, db, e, ("mean", "weighted_mean", "sum_weights"))
            # histories of adds include extend/collect: (sample, weight) must reach add in that order
            import forward_rules as FW
            FW.r_forward_ingest(ctx, db, e, state_assume=R.weights_assumer(db, e, False))
        if t.endswith("WeightedMeanWithError"):
            N.r_effective_len(ctx, db, e, scen)
        surface(ctx, db, e, skip=("ingest",) if kw.get("weighted") else (), weighted=kw.get("weighted", False))
        if t in ("moments::Variance", "moments::Skewness", "moments::Kurtosis"):
            # "so error() is a real number": wherever variance_of_mean is defined (n >= 1: 0 for one observation) error() is its root, not NaN
            R.r_sentinel(ctx, db, e, t.split("::")[-1], only=("variance_of_mean", "error", "error_mean"))
    for t, N_ in moment_types(ctx, db):
        e = Est(db, t)
        n += 1
        scen = N.est_scenarios(ctx, db, e, accessor_args={"central_moment": [(2,)]}, skip=("sample_skewness", "sample_excess_kurtosis"))
        scen["contracts"] = moment_contracts(N_)
        N.r_sign(ctx, db, e, scen)
        N.r_convex(ctx, db, e, scen, N.mean_fields(scen))
        N.r_underflow(ctx, db, e, scen, N.mean_fields(scen))
        surface(ctx, db, e)
    import hist_rules as H
    for e, ln, consts in hist_types(ctx, db):
        if ln <= 4:
            H.r_bin_variance_range(ctx, db, e, ln, consts)
    dba, hs = hist_const_types(ctx)
    for e, ln, consts in hs:      # the const-generic sibling (nightly feature) has its own variance code
        if ln <= 4:
            H.r_bin_variance_range(ctx, dba, e, ln, consts)
    ctx.floor("estimator types analysed for signs/ranges", n, 10)


TB = ("Trusted: rustc name resolution, type check, const evaluation and MIR construction (the driver only serialises them); "
      "the library summaries in analysis/summaries.py (DESIGN.md section 3.4); the IEEE-754 identities of DESIGN.md section 2.3; ")
TECH = "static analysis: abstract interpretation of /repo's MIR (partial evaluation over abstract data) + "

L0_FLOORS = {"C01": (15, 3), "C03": (22, 2), "C04": (150, 0), "C08": (18, 4), "C09": (23, 0), "C10": (20, 21)}


def with_law_floors(pid, fn):
    def run(ctx):
        fn(ctx)
        l0 = sum(1 for o in ctx.obs if o.key.startswith("L0:") and o.status != "inc")
        l8 = sum(1 for o in ctx.obs if o.key.startswith("L8:") and o.status != "inc")
        ctx.floor("definition identities (L0) actually compared", l0, L0_FLOORS[pid][0])
        if L0_FLOORS[pid][1]:
            ctx.floor("accessor relations (L8) actually compared", l8, L0_FLOORS[pid][1])
    return run


for _pid in L0_FLOORS:
    pass

PROPS = {
    "C01": {"run": c01, "level": "other", "design_ref": "DESIGN.md 5 C01",
            "technique": TECH + "count/dimension/sign/shift-degree domains, exact rational identity testing of add/merge laws and of the definitions on abstract streams",
            "explanation": "Decides: len() exact on every path (R-COUNT); scale homogeneity of every update and accessor (R-DIM); divisors provably non-zero (R-DIV); sums of squares only grow by non-negative terms (R-SIGN); no intermediate carries the common offset to a power > 1, i.e. no sum-of-squares cancellation (R-SHIFT); over the reals: add commutes, merge(S, singleton) = add, merge commutes/associates, accessor relations, and mean/variances equal their definitions on every abstract stream of length <= 4 (6 thorough) (R-LAW). Not decided: the forward-error envelope C*n*kappa*2^-53 itself.",
            "level_text": "Structural necessary conditions of C01 decided for all inputs (abstract data): count discipline, dimensional homogeneity, defined arithmetic, non-negative accumulation, offset-degree <= 1 of every intermediate (the structural reason the error is linear in kappa), and real-arithmetic identities between the crate's own operations and the statistics' definitions. The numeric envelope is not established by any static argument in reach.",
            "level_note": TB + "input domain of C01 (finite values); u64 counters do not wrap."},
    "C02": {"run": c02, "level": "other", "design_ref": "DESIGN.md 5 C02",
            "technique": TECH + "exact rational identity testing (Schwartz-Zippel over Q, with exact radical arithmetic) of merge laws",
            "explanation": "Decides for Mean, Variance, Skewness, Kurtosis, Moments4 and define_moments! at N in {4,5,6,8,10}: len additivity on every path; merging a fresh empty estimator on either side is an exact identity of every reported statistic; over the reals merge(S, singleton(x)) = add(S, x), merge commutes and associates, so every merge tree over contiguous chunks equals the single pass (induction on the right operand). Not decided: rounding of a deep merge tree.",
            "level_text": "Real-arithmetic equivalence of every merge tree with the single pass, plus exact (bit-level) identity for empty operands and exact lengths, for abstract states and data; the rounding envelope is open.",
            "level_note": TB + "laws are identities of rational functions decided at 4 random rational points with fixed seeds (error probability negligible, deterministic)."},
    "C03": {"run": c03, "level": "other", "design_ref": "DESIGN.md 5 C03",
            "technique": TECH + "dimension/sign/shift domains + identity testing against the definitions m3/m2^1.5 and m4/m2^2-3 on abstract streams",
            "explanation": "Decides for Skewness/Kurtosis: R-COUNT, R-DIM (sum_3: X^3, sum_4: X^4, results dimensionless), R-SIGN, R-DIV, R-SHIFT, the add/merge laws L1-L4, and that skewness(), kurtosis(), mean and variances equal their definitions over the reals on every abstract stream of length 2 and 4 (2..6 thorough). Not decided: the envelope.",
            "level_text": "As C01 for the third/fourth-order estimators; definitions are the ones quoted in the property.", "level_note": TB + "non-zero spread (property quantifier) for the normalisation."},
    "C04": {"run": c04, "level": "other", "design_ref": "DESIGN.md 5 C04",
            "technique": TECH + "concrete evaluation of the binomial iterator, per-element dimension analysis, identity testing of central/standardized moments against their definitions for every p <= N",
            "explanation": "Decides for define_moments! at N in {4,5,6,10} (+8 thorough), both cfg arms: IterBinomial yields Pascal's triangle without overflow for every order <= N (R-BINOM); m[j] has dimension X^(j+2) in add and merge (R-DIM); R-COUNT, R-SIGN (m[0]), R-DIV, R-SHIFT; L1-L4; central_moment(p) and standardized_moment(p) equal their definitions over the reals for every p <= N on abstract streams of length 2, 3 and N+1; no intermediate of any accessor or update exceeds dimension X^N (R-MAG). Not decided: the envelope; N outside the instantiated set.",
            "level_text": "Macro-generated code is analysed after expansion at the parameters the property names; real-arithmetic correctness of every order on short abstract streams plus merge laws.", "level_note": TB + "the harness crate /verif/harness instantiates the macro (no logic of its own)."},
    "C05": {"run": c05, "level": "other", "design_ref": "DESIGN.md 5 C05",
            "technique": TECH + "order-type enumeration of all abstract paths of Quantile::add compared with a transcription of the P-square step (translation validation against the algorithm quoted by the property)",
            "explanation": "Decides: new(p) sets desired positions/increments to the paper's formulas; after five observations heights are the sorted five and positions 1..5; for EVERY abstract path of add() on a state with >= 5 observations (about 4700 order/branch cases: cell search with ties, extreme capture, position increments, guards, parabolic accepted only strictly between neighbours else linear) the final markers equal the specified step: integers exactly, heights as rational functions. Not decided: bit-level agreement with a reference execution; that the estimate tracks the quantile.",
            "level_text": "Every path of the implementation's step agrees with the algorithm's step for all abstract states (heights sorted, positions arbitrary) and observations; this found the new-minimum defect (fixed).", "level_note": TB + "the specification step in analysis/quantile_rules.py is transcribed from Jain & Chlamtac as quoted in C05; float_ord::sort permutes into non-decreasing order."},
    "C06": {"run": c06, "level": "other", "design_ref": "DESIGN.md 5 C06",
            "technique": TECH + "order-type enumeration under the documented contract of binary_search_by; panic census; monotonicity-by-construction of with_const_width",
            "explanation": "Decides for define_histogram! at LEN in {1,2,3,4,10} (+100 thorough) and the const-generic sibling: find/add have no reachable panic (NaN included); the result is Ok exactly when range_min <= x < range_max and then the unique half-open bin; add changes exactly that count by one and nothing on the error path; edges are never modified; both constructors establish sorted edges (from_ranges table; with_const_width non-decreasing by construction); repeated edges (LEN <= 4) are decided for the binary-search algorithm shipped with the installed toolchain. Not decided: repeated edges under an arbitrary conforming binary_search_by (its contract leaves the index open).",
            "level_text": "All order types of (x, edges) including NaN, ties, infinities for strictly increasing edges; found find(NaN) panicking (fixed).", "level_note": TB + "documented contract of [T]::binary_search_by."},
    "C07": {"run": c07, "level": "other", "design_ref": "DESIGN.md 5 C07",
            "technique": TECH + "provenance (taint) of the returned height through float_ord::sort + grid evaluation of the index logic with abstract observations",
            "explanation": "Decides for 1..4 stored observations in arbitrary arrival order: every returned height derives from the sorted copy only (R-TAINT); no index panic for p in [0,1]; for a grid of p (k/8 quick; k/16, k/3 and near-boundary values thorough) the selected order statistic (or mean of two) is the one C07 defines, with the observations abstract. Not decided: p between grid points (the index is piecewise constant in p; boundaries k/n for n in {1,2,4} are on the grid); rounding of n*p.",
            "level_text": "Order-independence for all p and observations; exact selection on a grid of p. Found the unsorted read (fixed).", "level_note": TB + "float_ord::sort summary."},
    "C08": {"run": c08, "level": "other", "design_ref": "DESIGN.md 5 C08",
            "technique": TECH + "dimension analysis with a weight axis, zero-weight identity, convexity, identity testing against sum(wx)/sum(w) etc.",
            "explanation": "Decides: weight homogeneity (R-DIM with W axis), R-DIV with weights >= 0 (not > 0), a zero-weight observation leaves the weighted statistics exactly unchanged now and after later samples, from any state including empty (R-ZEROW), convex mean update/merge (R-CONVEX), R-SIGN, R-SHIFT, R-COUNT, merge identity, ingestion paths, L1-L4 and the formulas of C08 on abstract streams. Not decided: the envelopes.",
            "level_text": "Structure + real-arithmetic formulas; found the zero-first-weight NaN (fixed).", "level_note": TB + "weights >= 0."},
    "C09": {"run": c09, "level": "other", "design_ref": "DESIGN.md 5 C09",
            "technique": TECH + "two-axis dimension analysis, per-axis and joint shift degree, identity testing against the definitions and swap symmetry",
            "explanation": "Decides for Covariance: R-COUNT, R-DIM on (X, Y), R-SIGN (both sums of squares), R-DIV, R-SHIFT in x, in y and jointly (no product of two offset-carrying quantities), L1-L4, every accessor equals its definition over the reals on abstract streams, x<->y swap symmetry, merge identity, ingestion. Not decided: the envelope; |pearson| <= 1.",
            "level_text": "As C01 for the bivariate estimator.", "level_note": TB},
    "C10": {"run": c10, "level": "other", "design_ref": "DESIGN.md 5 C10",
            "technique": TECH + "identity testing of accessor relations and of the textbook formulas quoted by the property (exact radical arithmetic), dimension analysis, small-n division census",
            "explanation": "Decides: sample_variance*(n-1) = population_variance*n, variance_of_mean*n = sample_variance, error^2 = variance_of_mean for every type; for define_moments! types sample_skewness = sqrt(n(n-1))/(n-2)*m3/m2^1.5 and sample_excess_kurtosis = (n-1)/((n-2)(n-3))*((n+1)(m4/m2^2-3)+6) as identities between the type's own accessors on abstract states and against the definitions on abstract streams; dimensionless results; defined arithmetic at n = 2, 3; sentinels below the minimum sizes. Not decided: the envelope.",
            "level_text": "Formulas written in the property compared with the code over the reals; found both sample statistics wrong (fixed).", "level_note": TB},
    "C11": {"run": c11, "level": "proof", "design_ref": "DESIGN.md 5 C11",
            "technique": TECH + "exact (node-identical) state comparison on both empty-side cases, count arithmetic on affine integers, frame facts from types",
            "explanation": "Proves for all Merge impls (14 types + histograms at several LEN): merging a freshly constructed empty estimator into a leaves every reported statistic bit-for-bit unchanged and merging a into empty yields a's statistics (state leaves identical after IEEE-exact identities); merged length = len(a)+len(b) on every path; is_empty() iff len() == 0; merge never writes its argument; Clone is derived and field-wise exact; no interior mutability, no unsafe, no statics.",
            "level_text": "All obligations discharged for abstract reachable states; exactness is syntactic identity of residuals after the IEEE-exact identities of DESIGN 2.3.", "level_note": TB + "reachable states of Min/Max are not NaN; states are finite (C01 domain)."},
    "C12": {"run": c12, "level": "other", "design_ref": "DESIGN.md 5 C12",
            "technique": TECH + "enumeration of all input lists of length 0..LEN+3 as abstract items with NaN/order cases against the C12 table",
            "explanation": "Decides for LEN in {1,2,3,4} (+10 thorough) and both siblings: for every abstract input prefix (each item NaN / out of order / fine, list shorter or longer) the outcome (Ok with exactly the first LEN+1 values and zero counts, or the error of the first offending position, NaN before NotSorted, NotEnoughRanges) is the one C12 states; extra values are ignored even if invalid. with_const_width: first edge exactly start, edges = start + i(end-start)/LEN over the reals, non-decreasing by construction, each edge computed by at most 5 rounded operations independent of the index (R-ULPS); range_min/range_max/ranges()/bins() are exact views. Not decided: the exact ulp constant.",
            "level_text": "Exhaustive over the order/NaN types of the inputs (not over values).", "level_note": TB},
    "C13": {"run": c13, "level": "proof", "design_ref": "DESIGN.md 5 C13",
            "technique": TECH + "effect summaries and write-before-panic analysis over all edge-(in)equality cases",
            "explanation": "Proves: merge and += return only when every edge pair compares equal and then counts are the bin-wise sums with edges and argument untouched; on a mismatch they panic before any write (one panicking path per edge position); merge and += agree; *= scales every count, reset zeroes counts and keeps edges; iteration yields exactly LEN items ((edge j, edge j+1), count j); widths, centers, normalized_bins, variances equal the formulas of C13 over the reals; variance(i) is computed by exactly the same arithmetic as variances()[i]. Not decided: u64 overflow of counts.",
            "level_text": "All obligations discharged for LEN in {1,2,3,4,10} and the const-generic sibling.", "level_note": TB},
    "C14": {"run": c14, "level": "proof", "design_ref": "DESIGN.md 5 C14",
            "technique": TECH + "NaN/order case enumeration of add and merge against the fold specification",
            "explanation": "Proves: new() holds the fold's neutral element; after add(v) / merge(other) the state is, on every NaN/order case, the extreme of the previous state and v ignoring NaN; from_value, min/max, estimate are exact copies; merge with empty is an identity; Default = new; ingestion = add loop. Order/chunking independence follows (selection is commutative, associative, idempotent).",
            "level_text": "All cases of (state, value) including NaN and infinities.", "level_note": TB + "IEEE minNum/maxNum semantics of f64::min/max; total orders (FloatOrd, total_cmp) are modelled with unknown NaN/zero signs."},
    "C15": {"run": c15, "level": "other", "design_ref": "DESIGN.md 5 C15",
            "technique": TECH + "path conditions of the constructor; count discipline; the P-square step comparison of C05",
            "explanation": "Decides: every normal return of new(p) implies 0 <= p <= 1 by a release assertion and new never panics inside the range; the count increases by exactly one on every add path (first five and later); is_empty iff len()==0; p() reads a slot that new sets to p and add never writes; the full P-square step comparison; on every path the marker heights stay non-decreasing with the extremes equal to the running min/max (R-SORTED: induction over the specified step plus a float-level shape condition on the linear step), so quantile() lies within [min, max]; with fewer than five observations the result is an order statistic or a midpoint of two (R-RANGE); NaN only for the empty estimator (sentinel). Not decided: nothing beyond the rounding of the parabolic formula (whose result is accepted only after comparison with its live neighbours).",
            "level_text": "Bookkeeping, sortedness and range clauses decided for all abstract paths.", "level_note": TB},
    "C16": {"run": c16, "level": "proof", "design_ref": "DESIGN.md 5 C16, Appendix B.1",
            "technique": TECH + "evaluation of every accessor in the constructed states n=0, n=1, constant stream (induction step proved), n=2, n=3 against the sentinel table; panic census",
            "explanation": "Proves the sentinel table (about 240 cells over 14 types incl. define_moments! at several N): NaN/0/+-inf/1/x as documented for n = 0, 1, 2, 3 and for constant streams of any length (the constant-stream state is shown to be a fixed point of add(x) up to the count); no reachable release-mode panic in any cell except the documented zero-variance assertion; Default = new; states reached through merges with empty estimators are the add-only states.",
            "level_text": "All cells discharged; constant streams by induction in the exact-identity domain.", "level_note": TB + "finite inputs (x - x = 0, 0 * x = 0)."},
    "C17": {"run": c17, "level": "other", "design_ref": "DESIGN.md 5 C17",
            "technique": TECH + "sign domain (sound for IEEE), convexity via polynomial positivity, shift degree",
            "explanation": "Decides: every write to a sum of squares in add and merge adds a provably non-negative term, so all variances are >= 0 and error() is real (sound for floats, no restriction on kappa); mean updates and merges are convex combinations (coefficients are ratios of polynomials with non-negative coefficients, summing to 1); bin variance lies in [0, count] and is <= total/4 (total/4 - variance is a square over a positive denominator); 1 <= effective_len <= len from two inductive polynomial invariants, n*sum(w^2) - (sum w)^2 >= 0 and (sum w)^2 - sum(w^2) >= 0, preserved by add (w >= 0) and merge (R-ELEN); R-DIM (scale-free emptiness tests). Not decided: the rounding slack of these bounds.",
            "level_text": "Sign, convexity and range clauses decided for all inputs over the reals (signs: also in floating point).", "level_note": TB + "weights >= 0."},
    "C18": {"run": c18, "level": "other", "design_ref": "DESIGN.md 5 C18",
            "technique": "static analysis: structural query over the type-checked program and the expanded AST (derives, field attributes, serialize_field calls, field types, statics)",
            "explanation": "Decides under the serde feature for 12 in-crate state structs and 11 harness instantiations: Serialize and Deserialize are derived; every field is written under its own name; no serde attribute other than BigArray on arrays (read from the expanded AST); fields are plain data or other covered state structs; no statics, no interior mutability, no unsafe: the serialised form holds every bit of state the methods read. Not decided: losslessness of the format and of serde_derive/BigArray (assumption of the property).",
            "level_text": "State-completeness of the serialised form; the round trip itself is trusted to serde.", "level_note": "Trusted: rustc front end; serde_derive; serde-big-array."},
    "C19": {"run": c19, "level": "other", "design_ref": "DESIGN.md 5 C19",
            "technique": TECH + "inspection of the closures handed to rayon fold/reduce (evaluated abstractly) + merge laws and identity",
            "explanation": "Decides for 18+ from_par_iter impls (f64 and &f64; in-crate and macro instantiations): the pipeline is into_par_iter().fold(new, add).reduce(new, merge) with fold identity = new(), fold op = exactly one add(item), reduce identity = new(), reduce op = a.merge(&b); a; together with exact empty identity, exact length additivity and the real-arithmetic merge laws (any tree = single pass) and Min/Max exactness. Not decided: the envelope under re-association; rayon itself.",
            "level_text": "The schedule only chooses a merge tree over contiguous chunks with identities inserted; every such tree is covered by the decided laws.", "level_note": TB + "rayon's documented fold/reduce contract."},
    "C20": {"run": c20, "level": "proof", "design_ref": "DESIGN.md 5 C20",
            "technique": TECH + "exact state comparison of every ingestion impl with new()+add(item)* on abstract inputs; forwarding checks",
            "explanation": "Proves for 40+ FromIterator/Extend impls (value, reference, pair), all Estimate impls and the harness concatenate! shapes: the result state is node-identical to add() in a loop for 0..2 (3 thorough) abstract items and the input iterator is exhausted; estimate() is exactly the headline accessor; concatenate! builds fields with their defaults, forwards x once to every field, and each statistic is exactly the underlying accessor; Default = new.",
            "level_text": "Identical effect summaries on abstract data imply bit-identical results.", "level_note": TB + "determinism of IEEE arithmetic; loops are item-uniform (checked up to 2-3 items)."},
}

_BOX = (" R-MAG (value box): at the corners of the property's value box (|x| in [1e-30, 1e30] capped by the no-overflow restriction, n in {2, 1e6}) "
        "every product/quotient/power that contributes more than 1e-14 of a new field value or statistic is a representable f64, so an algebraically "
        "identical regrouping whose factor underflows or overflows is reported.")
for _p in ("C01", "C03", "C04", "C08", "C09"):
    PROPS[_p]["explanation"] += _BOX
PROPS["C02"]["explanation"] += (" The merge code itself is also held to the numeric-structure rules of C01 (R-DIM, R-DIV, R-SHIFT: no intermediate of merge carries the "
                                 "common offset to a power > 1, i.e. no recombination through raw moments; R-MAG value box).")
PROPS["C19"]["explanation"] += " The merge reached by reduce is held to R-DIM/R-DIV/R-SHIFT/R-MAG as in C02 (cancellation-free merge)."
PROPS["C07"]["explanation"] += " The analysed small states are exactly what add() builds: each of the first adds stores the observation as given in the next slot and increments the count once (R-COUNT/R-P2 small-add)."
PROPS["C10"]["explanation"] += (" The n of the formulas is the number of observations: R-COUNT for add and merge of every type involved. The sequence may arrive "
                                 "through extend/collect by value or by reference (R-FORWARD: exactly add in a loop from the current state) or a rayon collect (R-RAYON).")
PROPS["C07"]["explanation"] += " Default::default() is new(0.5) field by field (the state concatenate! starts from)."
PROPS["C01"]["explanation"] += (" Estimate::estimate returns the headline statistic, and extend/collect (f64 and &f64) are add in a loop from the current state, "
                                 "uniformly in the item position (R-FORWARD).")
for _p in ("C03", "C04"):
    PROPS[_p]["explanation"] += " extend/collect (f64 and &f64) are add in a loop from the current state (R-FORWARD)."
for _p in ("C01", "C02", "C03", "C04", "C05", "C07", "C08", "C09", "C10", "C11", "C14", "C15", "C16", "C17", "C19"):
    PROPS[_p]["explanation"] += (" Construction surface of every estimator type involved: Default = new, clone/clone_from exact, estimate() = headline "
                                 "statistic, extend/collect = add loop, no inherent method shadowing a trait method (the same rules in every property).")
PROPS["C09"]["explanation"] += " No inherent method shadows a trait method of the same name with a different body (R-SIB inherent-vs-trait)."
PROPS["C17"]["explanation"] += (" R-UNDERFLOW: the range clause has no absolute slack (denormals are in the domain), so the new mean of add/merge may contain at most one "
                                 "operation that can round a subnormal (a product with a non-integer, a quotient), at the root or as the increment of the stored mean, "
                                 "where rounding is monotone; sums and products with integer counts are exact there. Two open findings: the weighted merges.")
PROPS["C13"]["explanation"] += (" Every Iterator method a crate-local iterator overrides besides next (nth, size_hint, count, last) is compared with the default built "
                                 "from next for every prefix and argument (R-SIB); today there are no overrides.")
for _p in PROPS:
    PROPS[_p]["explanation"] += (" Functions of the anchored files whose body differs under another cargo feature configuration (std; serde+rayon+nightly; none) "
                                 "are re-analysed under that configuration (R-CFG). Instance-count floors and an analysis that cannot complete fail closed (FLOOR); "
                                 "an idiom the evaluator has no model for is reported INCONCLUSIVE and listed in the evidence, with wall-clock budgets per path and per exploration.")

for _pid in L0_FLOORS:
    PROPS[_pid]["run"] = with_law_floors(_pid, PROPS[_pid]["run"])
