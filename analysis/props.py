"""Per-property drivers: which rules are armed for which anchors (DESIGN §5)."""
import rules as R
from scen import Est

MOMENT_FAMILY = ["moments::Mean", "moments::Variance", "moments::Skewness", "moments::Kurtosis", "Moments4"]
HARNESS_MOMENTS = ["m4::M4", "m5::M5", "m6::M6", "m8::M8", "m10::M10"]


def cfgs(ctx):
    return ["A", "B"] if ctx.tier == "quick" else ["A", "B", "C", "D"]


def c01(ctx):
    for cfg in ("A", "B"):
        db = ctx.db(cfg)
        n = 0
        for t in ("moments::Mean", "moments::Variance"):
            e = Est(db, t)
            if not e.exists():
                continue
            n += 1
            R.r_count(ctx, db, e, cfg)
            if cfg == 'B': R.laws_add_merge(ctx, db, e)
        ctx.floor("estimator types analysed (cfg %s)" % cfg, n, 2)


def c02(ctx):
    db = ctx.db("B")
    n = 0
    for t in MOMENT_FAMILY + HARNESS_MOMENTS:
        e = Est(db, t)
        if not e.exists():
            continue
        n += 1
        import time
        t0 = time.time()
        R.r_count(ctx, db, e, "B")
        which = ("L2", "L3", "L4")
        R.laws_add_merge(ctx, db, e, which)
        R.r_ident_merge(ctx, db, e)
        print(t, "%.1fs" % (time.time() - t0))
    ctx.floor("Merge types of the moment family analysed", n, 10)


PROPS = {
    "C02": {"run": c02, "level": "other", "explanation": "merge laws"},
    "C01": {"run": c01, "level": "other",
            "explanation": "Decides the structural clauses of C01 (count discipline, ...); the forward-error envelope is not decided."},
}
