"""Per-property drivers: which rules are armed for which anchors (DESIGN §5)."""
import rules as R
from scen import Est

MOMENT_FAMILY = ["moments::Mean", "moments::Variance", "moments::Skewness", "moments::Kurtosis", "Moments4"]
HARNESS_MOMENTS = ["m4::M4", "m5::M5", "m6::M6", "m8::M8", "m10::M10"]


def cfgs(ctx):
    return ["A", "B"] if ctx.tier == "quick" else ["A", "B", "C", "D"]


def numeric(ctx, db, path, rules_, weighted=False, pair=False, accessor_args=None, laws=(), extra_contracts=None, e_extra=(), skip=(), only=None):
    """run the shared scenarios of one estimator once and apply the selected numeric-structure rules"""
    import num_rules as N
    e = Est(db, path)
    if not e.exists():
        return None
    scen = N.est_scenarios(ctx, db, e, weighted=weighted, pair=pair, accessor_args=accessor_args, skip=skip, only=only)
    scen["contracts"] = extra_contracts or {}
    if "count" in rules_:
        R.r_count(ctx, db, e, db.cfg)
    if "dim" in rules_:
        N.r_dim(ctx, db, e, scen, extra_contracts)
    if "sign" in rules_:
        N.r_sign(ctx, db, e, scen, weighted=weighted)
    if "div" in rules_:
        N.r_div(ctx, db, e, scen, weighted=weighted)
    if "shift" in rules_:
        ef = N.mean_fields(scen) | set(e_extra)
        if pair:
            efx = N.mean_fields(scen, ("mean_x",))
            efy = N.mean_fields(scen, ("mean_y",))
            N.r_shift(ctx, db, e, scen, efx, axis_params=(0,), label="X")
            N.r_shift(ctx, db, e, scen, efy, axis_params=(1,), label="Y")
            N.r_shift(ctx, db, e, scen, efx | efy, axis_params=(0, 1), label="X and Y jointly")
        else:
            N.r_shift(ctx, db, e, scen, ef, axis_params=(0,), label="X")
    if laws:
        R.laws_add_merge(ctx, db, e, laws, assume=R.weights_assumer(db, e, True) if weighted else None,
                         arg_assume=R.weighted_args if weighted else None)
    return e, scen


def moment_args(N_):
    return {"central_moment": [(p,) for p in range(0, N_ + 1)], "standardized_moment": [(p,) for p in range(0, N_ + 1)]}


def moment_contracts(N_):
    c = {}
    for p in range(0, N_ + 1):
        c["central_moment(%d)" % p] = ({"X": p}, "nonneg" if p == 2 else None, "I")
        c["standardized_moment(%d)" % p] = ({}, None, "I")
    return c


def c01(ctx):
    n = 0
    for cfg in ("B", "A"):
        db = ctx.db(cfg)
        for t in ("moments::Mean", "moments::Variance"):
            r = numeric(ctx, db, t, ("count", "dim", "sign", "div", "shift") if cfg == "B" else ("count",),
                        laws=("L1", "L2", "L3", "L4") if cfg == "B" else ())
            if r:
                n += 1
                if cfg == "B":
                    import num_laws as NL
                    NL.accessor_laws(ctx, db, r[0])
                    kind = t.split("::")[-1]
                    for k in ((1, 2, 4) if ctx.tier == "quick" else (1, 2, 3, 4, 5, 6)):
                        NL.stream_definitions(ctx, db, r[0], k, NL.defs_moments(kind), min_k={"sample_variance": 2, "variance_of_mean": 2, "error": 2})
    ctx.floor("Mean/Variance analysed over cfgs", n, 4)


def c03(ctx):
    import num_laws as NL
    db = ctx.db("B")
    n = 0
    for t in ("moments::Skewness", "moments::Kurtosis"):
        r = numeric(ctx, db, t, ("count", "dim", "sign", "div", "shift"), laws=("L1", "L2", "L3", "L4"))
        if not r:
            continue
        n += 1
        NL.accessor_laws(ctx, db, r[0])
        kind = t.split("::")[-1]
        for k in ((2, 4) if ctx.tier == "quick" else (2, 3, 4, 5, 6)):
            NL.stream_definitions(ctx, db, r[0], k, NL.defs_moments(kind), min_k={"sample_variance": 2, "error_mean": 2, "skewness": 2, "kurtosis": 2})
    ctx.floor("Skewness/Kurtosis analysed", n, 2)


def moment_types(ctx, db):
    out = [("Moments4", 4)]
    for t, N_ in (("m4::M4", 4), ("m5::M5", 5), ("m6::M6", 6), ("m8::M8", 8), ("m10::M10", 10)):
        if ctx.tier == "quick" and t in ("m4::M4", "m8::M8"):
            continue
        out.append((t, N_))
    return [(t, N_) for t, N_ in out if Est(db, t).exists()]


def c04(ctx):
    import num_laws as NL
    n = 0
    for cfg in ("B", "A"):
        db = ctx.db(cfg)
        for t, N_ in moment_types(ctx, db):
            if cfg == "A" and t != "m5::M5":
                continue   # cfg A (serde arm of define_moments_inner!) is the same expansion; one instantiation cross-checks it
            r = numeric(ctx, db, t, ("count", "dim", "sign", "div", "shift"), accessor_args=moment_args(N_),
                        skip=("sample_skewness", "sample_excess_kurtosis", "sample_variance"),
                        extra_contracts=moment_contracts(N_), laws=("L1", "L2", "L3", "L4") if (N_ <= 6 or ctx.tier == "thorough") else ("L1", "L2", "L3"))
            if not r:
                continue
            n += 1
            R.r_binom(ctx, db, t, N_)
            ks = (2, N_ + 1) if ctx.tier == "quick" else tuple(range(2, N_ + 3))
            defs = {k_: v for k_, v in NL.defs_moments("Moments", N_).items() if k_ not in ("sample_skewness", "sample_excess_kurtosis", "sample_variance")}
            for k in ks:
                if ctx.tier == "quick" and N_ >= 8 and k > 6:
                    k = 6
                NL.stream_definitions(ctx, db, r[0], k, defs)
    ctx.floor("define_moments! instantiations analysed", n, 5)


def c02(ctx):
    db = ctx.db("B")
    n = 0
    for t in MOMENT_FAMILY + HARNESS_MOMENTS:
        e = Est(db, t)
        if not e.exists():
            continue
        n += 1
        import time
        t0 = time.time()
        R.r_count(ctx, db, e, "B")
        which = ("L2", "L3", "L4")
        R.laws_add_merge(ctx, db, e, which)
        R.r_ident_merge(ctx, db, e)
        print(t, "%.1fs" % (time.time() - t0))
    ctx.floor("Merge types of the moment family analysed", n, 10)


EST_KINDS = [
    ("moments::Mean", "Mean", {}), ("moments::Variance", "Variance", {}), ("moments::Skewness", "Skewness", {}),
    ("moments::Kurtosis", "Kurtosis", {}), ("Moments4", "Moments", {"N": 4}),
    ("m4::M4", "Moments", {"N": 4}), ("m5::M5", "Moments", {"N": 5}), ("m6::M6", "Moments", {"N": 6}),
    ("m8::M8", "Moments", {"N": 8}), ("m10::M10", "Moments", {"N": 10}),
    ("weighted_mean::WeightedMean", "WeightedMean", {"weighted": True}),
    ("weighted_mean::WeightedMeanWithError", "WeightedMeanWithError", {"weighted": True}),
    ("covariance::Covariance", "Covariance", {}), ("minmax::Min", "Min", {}), ("minmax::Max", "Max", {}),
]


def quantile_ctor(m):
    import fnode as F
    p = F.atom("p")
    m.order.set_nan(p, False)
    m.order.assume("Ge", p, F.ZERO, True)
    m.order.assume("Le", p, F.ONE, True)
    return [p]


def c16(ctx):
    db = ctx.db("B")
    cells = 0
    types = 0
    for path, kind, kw in EST_KINDS:
        e = Est(db, path)
        if not e.exists():
            continue
        if ctx.tier == "quick" and path in ("m8::M8", "m10::M10", "m4::M4"):
            continue
        types += 1
        cells += R.r_sentinel(ctx, db, e, kind, N=kw.get("N"), weighted=kw.get("weighted", False))
        leaf = R.count_leaf(ctx, db, e)
        if e.add and kind not in ("Min", "Max"):
            R.r_const_induction(ctx, db, e, leaf, weighted=kw.get("weighted", False))
        # states of the table reached through Default or through merges with empty estimators
        R.r_default_is_new(ctx, db, e)
        R.r_ident_merge(ctx, db, e, assume=R.nonnan_state if kind in ("Min", "Max") else None)
    q = Est(db, "quantile::Quantile")
    if q.exists():
        types += 1
        cells += R.r_sentinel(ctx, db, q, "Quantile", ctor_args=quantile_ctor)
        import fnode as F
        R.r_default_is_new(ctx, db, q, new_args=lambda m: [F.lit(0.5)])
    ctx.floor("estimator types with a sentinel table", types, 11)
    ctx.floor("sentinel table cells evaluated", cells, 120)


HIST_TYPES = [("hist::Histogram", 10), ("h1::Histogram", 1), ("h2::Histogram", 2), ("h3::Histogram", 3),
              ("h4::Histogram", 4), ("h10::Histogram", 10), ("h100::Histogram", 100)]
MERGE_TYPES = ["moments::Mean", "moments::Variance", "moments::Skewness", "moments::Kurtosis", "Moments4",
               "m5::M5", "m6::M6", "m8::M8", "m10::M10", "minmax::Min", "minmax::Max",
               "weighted_mean::WeightedMean", "weighted_mean::WeightedMeanWithError", "covariance::Covariance"]


def c11(ctx):
    db = ctx.db("B")
    n = 0
    for t in MERGE_TYPES:
        e = Est(db, t)
        if not e.exists() or not e.merge:
            continue
        if ctx.tier == "quick" and t in ("m8::M8", "m10::M10"):
            continue
        n += 1
        R.r_ident_merge(ctx, db, e, assume=R.nonnan_state if t.startswith("minmax") else None)
        if e.m("len", None):
            R.r_count(ctx, db, e, "B")
        R.r_derived_clone(ctx, db, e)
    ctx.floor("Merge impls analysed (non-histogram)", n, 11)
    nh = 0
    for t, ln in HIST_TYPES:
        if ctx.tier == "quick" and ln > 10:
            continue
        e = Est(db, t)
        if not e.exists():
            continue
        nh += 1
        R.r_hist_merge_identity(ctx, db, e, ln)
    ctx.floor("histogram Merge impls analysed", nh, 5)
    if "A" in cfgs(ctx):
        dba = ctx.db("A")
        e = Est(dba, "histogram_const::Histogram")
        if e.exists():
            for ln in (1, 3):
                R.r_hist_merge_identity(ctx, dba, e, ln, consts={"LEN": ln})
    R.r_no_interior_mutability(ctx, db)


def quantile_est(ctx, cfg="B"):
    import quantile_rules as Q
    db = ctx.db(cfg)
    e = Est(db, Q.QPATH)
    if not e.exists() or not e.add or not e.new:
        ctx.floor("Quantile type with new/add present", 0, 1)
        return None, None, None
    roles, _ = Q.role_fields(db, e)
    if set(roles) != {"q", "n", "m", "dm"}:
        ctx.ob("R-P2", "roles", Q.QPATH, "-", False, "cannot identify heights/positions/desired/increments arrays from new(p): %s" % roles, inc=True)
        return None, None, None
    return db, e, roles


def c05(ctx):
    import quantile_rules as Q
    db, e, roles = quantile_est(ctx)
    if e is None:
        return
    Q.r_p2_init(ctx, db, e, roles)
    n = Q.r_p2_step(ctx, db, e, roles)
    ctx.floor("abstract paths of Quantile::add (>= 5 observations) compared with the specification", n, 100)


def c07(ctx):
    import quantile_rules as Q
    db, e, roles = quantile_est(ctx)
    if e is None:
        return
    grid = [k / 8.0 for k in range(0, 9)] if ctx.tier == "quick" else sorted(set([k / 16.0 for k in range(0, 17)] + [k / 3.0 for k in range(4)] + [0.1, 0.3, 0.7, 0.9, 1e-9, 1 - 1e-9]))
    n = Q.r_small_quantile(ctx, db, e, roles, grid)
    ctx.floor("(n, p) grid cases of the small-sample quantile", n, 36)


def c15(ctx):
    import quantile_rules as Q
    db, e, roles = quantile_est(ctx)
    if e is None:
        return
    Q.r_quantile_ctor(ctx, db, e)
    R.r_count(ctx, db, e, "B", expect_merge=False, check_add=False)
    Q.r_count_small(ctx, db, e, roles)
    # extreme markers and the count follow the specified step
    # extreme markers capture min/max, the count is exact, `dm` (hence p()) has no writer, and the
    # acceptance test keeps interior heights between their neighbours: all follow from the specified step
    Q.r_p2_step(ctx, db, e, roles, rule="R-P2", label=":bookkeeping")
    Q.r_p2_init(ctx, db, e, roles)
    R.r_sentinel(ctx, db, e, "Quantile", ctor_args=quantile_ctor)


def hist_types(ctx, db):
    out = []
    for t, ln in HIST_TYPES:
        if ctx.tier == "quick" and (ln > 4 and t != "hist::Histogram"):
            continue
        e = Est(db, t)
        if e.exists():
            out.append((e, ln, None))
    return out


def hist_const_types(ctx):
    if "A" not in cfgs(ctx):
        return None, []
    dba = ctx.db("A")
    e = Est(dba, "histogram_const::Histogram")
    if not e.exists():
        return dba, []
    lens = (1, 3) if ctx.tier == "quick" else (1, 2, 3, 4, 10)
    return dba, [(e, ln, {"LEN": ln}) for ln in lens]


def c06(ctx):
    import hist_rules as H
    db = ctx.db("B")
    n = 0
    for e, ln, consts in hist_types(ctx, db):
        n += 1
        H.r_find_add(ctx, db, e, ln, consts)
        # find() is decided for sorted edges: both constructors must establish that invariant
        H.r_const_width_monotone(ctx, db, e, ln, consts)
        if ln <= 3:
            H.r_from_ranges(ctx, db, e, ln, consts)
    dba, hs = hist_const_types(ctx)
    for e, ln, consts in hs:
        n += 1
        H.r_find_add(ctx, dba, e, ln, consts)
        H.r_const_width_monotone(ctx, dba, e, ln, consts)
    ctx.floor("histogram instantiations analysed (find/add)", n, 6)
    ctx.notes.append("decided for strictly increasing edges under the documented contract of [T]::binary_search_by; with repeated edges the bin "
                     "returned for a sample equal to the repeated edge depends on which equal index the standard library returns (unspecified)")


def c12(ctx):
    import hist_rules as H
    db = ctx.db("B")
    n = 0
    for e, ln, consts in hist_types(ctx, db):
        if ln <= 4 or ctx.tier == "thorough":
            n += H.r_from_ranges(ctx, db, e, ln, consts)
        H.r_const_width(ctx, db, e, ln, consts)
        H.r_const_width_monotone(ctx, db, e, ln, consts)
    dba, hs = hist_const_types(ctx)
    for e, ln, consts in hs:
        if ln <= 4:
            n += H.r_from_ranges(ctx, dba, e, ln, consts)
        H.r_const_width(ctx, dba, e, ln, consts)
        H.r_const_width_monotone(ctx, dba, e, ln, consts)
    ctx.floor("abstract paths of from_ranges compared with the C12 table", n, 60)


def c13(ctx):
    import hist_rules as H
    db = ctx.db("B")
    n = 0
    for e, ln, consts in hist_types(ctx, db):
        n += 1
        H.r_merge_addassign(ctx, db, e, ln, consts)
        H.r_scale_reset(ctx, db, e, ln, consts)
        H.r_iter_views(ctx, db, e, ln, consts)
    dba, hs = hist_const_types(ctx)
    for e, ln, consts in hs:
        n += 1
        H.r_merge_addassign(ctx, dba, e, ln, consts)
        H.r_scale_reset(ctx, dba, e, ln, consts)
        H.r_iter_views(ctx, dba, e, ln, consts)
    ctx.floor("histogram instantiations analysed (merge/views)", n, 6)


def c14(ctx):
    import minmax_rules as MM
    n = 0
    for cfg in ("B", "A"):
        db = ctx.db(cfg)
        for t, is_min in (("minmax::Min", True), ("minmax::Max", False)):
            e = Est(db, t)
            if not e.exists():
                continue
            n += 1
            MM.r_minmax(ctx, db, e, is_min)
            if cfg == "B":
                R.r_ident_merge(ctx, db, e, assume=R.nonnan_state)
                R.r_default_is_new(ctx, db, e)
                import forward_rules as FW
                FW.r_forward_ingest(ctx, db, e)
    ctx.floor("Min/Max types analysed", n, 4)


CAT_SPECS = {
    "cat::MinMax": [("min", "minmax::Min", ["min"]), ("max", "minmax::Max", ["max"])],
    "cat::OnlyMean": [("mean", "moments::Mean", ["mean"])],
    "cat::MeanVar": [("var", "moments::Variance", ["mean", "sample_variance", "population_variance"])],
    "cat::Three": [("lo", "minmax::Min", ["min"]), ("v", "moments::Variance", ["mean", "sample_variance"]), ("hi", "minmax::Max", ["max"])],
    "cat::WithQuantile": [("quantile", "quantile::Quantile", ["quantile"]), ("mean", "moments::Mean", ["mean"])],
    "cat::Shape": [("skewness", "moments::Skewness", ["skewness"]), ("kurtosis", "moments::Kurtosis", ["kurtosis"])],
    "cat::Four": [("lo", "minmax::Min", ["min"]), ("hi", "minmax::Max", ["max"]), ("k", "moments::Kurtosis", ["mean", "kurtosis", "skewness"]),
                  ("q", "quantile::Quantile", ["quantile"])],
}
INGEST_TYPES = ["moments::Mean", "moments::Variance", "moments::Skewness", "moments::Kurtosis", "Moments4", "m5::M5", "m6::M6",
                "minmax::Min", "minmax::Max", "weighted_mean::WeightedMean", "weighted_mean::WeightedMeanWithError",
                "covariance::Covariance"]
RAYON_TYPES = ["moments::Mean", "moments::Variance", "moments::Skewness", "moments::Kurtosis", "Moments4", "minmax::Min", "minmax::Max",
               "m4::M4", "m5::M5", "m6::M6", "m8::M8", "m10::M10"]
SERDE_TYPES = ["moments::Mean", "moments::Variance", "moments::Skewness", "moments::Kurtosis", "Moments4", "minmax::Min", "minmax::Max",
               "quantile::Quantile", "weighted_mean::WeightedMean", "weighted_mean::WeightedMeanWithError", "covariance::Covariance",
               "hist::Histogram", "m4::M4", "m5::M5", "m6::M6", "m8::M8", "m10::M10", "h1::Histogram", "h2::Histogram", "h3::Histogram",
               "h4::Histogram", "h10::Histogram", "h100::Histogram"]


def c20(ctx):
    import forward_rules as FW
    db = ctx.db("B")
    n_ing = n_est = n_cat = 0
    for t in INGEST_TYPES:
        e = Est(db, t)
        if not e.exists():
            continue
        n_ing += FW.r_forward_ingest(ctx, db, e, max_items=2 if ctx.tier == "quick" else 3,
                                     state_assume=R.nonnan_state if t.startswith("minmax") else None)
        n_est += FW.r_estimate_headline(ctx, db, e, assume=R.nonnan_state if t.startswith("minmax") else None)
        R.r_default_is_new(ctx, db, e)
    q = Est(db, "quantile::Quantile")
    if q.exists():
        import fnode as F
        n_est += FW.r_estimate_headline(ctx, db, q)
        R.r_default_is_new(ctx, db, q, new_args=lambda m: [F.lit(0.5)])
    for path, spec in CAT_SPECS.items():
        if ctx.tier == "quick" and path in ("cat::Four", "cat::WithQuantile"):
            # Quantile::add has thousands of abstract paths; the two Quantile-bearing shapes run in the thorough tier
            continue
        n_cat += FW.r_concatenate(ctx, db, path, spec)
        e = Est(db, path)
        if e.exists() and path not in ("cat::Four", "cat::WithQuantile"):
            n_ing += FW.r_forward_ingest(ctx, db, e, max_items=2)
    ctx.floor("FromIterator/Extend impls analysed", n_ing, 40)
    ctx.floor("Estimate::estimate impls analysed", n_est, 7)
    ctx.floor("concatenate! obligations", n_cat, 20)


def c19(ctx):
    import forward_rules as FW
    db = ctx.db("A")
    n = 0
    for t in RAYON_TYPES:
        e = Est(db, t)
        if not e.exists():
            continue
        if ctx.tier == "quick" and t in ("m8::M8", "m10::M10", "m4::M4"):
            continue
        n += FW.r_rayon(ctx, db, e, assume=R.nonnan_state if t.startswith("minmax") else None)
        # preconditions rayon's fold/reduce contract needs: exact identity and the merge laws
        R.r_ident_merge(ctx, db, e, assume=R.nonnan_state if t.startswith("minmax") else None)
        if not t.startswith("minmax"):
            R.laws_add_merge(ctx, db, e, ("L2", "L3", "L4"))
            R.r_count(ctx, db, e, "A")
    ctx.floor("from_par_iter impls analysed", n, 18)


def c18(ctx):
    import forward_rules as FW
    db = ctx.db("A")
    n = 0
    for t in SERDE_TYPES:
        n += FW.r_serde(ctx, db, t)
    ctx.floor("state structs with serde impls analysed", n, 20)
    seen = sum(1 for a in db.adts.values() for v in a["variants"] for f in v["fields"] if any("serde" in x for x in f.get("ast_attrs", [])))
    ctx.floor("serde field attributes visible in the expanded AST (positive control: BigArray on histogram arrays)", seen, 14)
    R.r_no_interior_mutability(ctx, db)
    # nested state reachable from the listed structs must itself be listed
    for t in SERDE_TYPES:
        a = db.adts.get(t)
        if not a:
            continue
        for f in a["variants"][0]["fields"]:
            ty = f["ty"]
            while ty["k"] == "array":
                ty = ty["elem"]
            if ty["k"] == "adt":
                ctx.ob("R-SERDE", "nested-state-covered", t, "-", ty["path"] in SERDE_TYPES, "field %s has state type %s" % (f["name"], ty["path"]), nontrivial=False)


def c10(ctx):
    import num_laws as NL
    import num_rules as N
    db = ctx.db("B")
    n = 0
    fam = [("moments::Variance", "Variance"), ("moments::Skewness", "Skewness"), ("moments::Kurtosis", "Kurtosis"),
           ("weighted_mean::WeightedMeanWithError", "WMWE")]
    for t, kind in fam:
        e = Est(db, t)
        if not e.exists():
            continue
        n += 1
        NL.accessor_laws(ctx, db, e)
    for t, N_ in moment_types(ctx, db):
        e = Est(db, t)
        n += 1
        NL.accessor_laws(ctx, db, e)
        NL.moments_sample_laws(ctx, db, e)
        scen = N.est_scenarios(ctx, db, e, only=("sample_variance", "sample_skewness", "sample_excess_kurtosis"), nmin_generic=4,
                               accessor_args={"central_moment": [(2,), (3,), (4,)]})
        N.r_dim(ctx, db, e, scen, moment_contracts(4))
        N.r_div(ctx, db, e, scen)
        defs = {k_: v for k_, v in NL.defs_moments("Moments", N_).items() if k_ in ("sample_skewness", "sample_excess_kurtosis", "sample_variance")}
        for k in ((3, 5) if ctx.tier == "quick" else (2, 3, 4, 5, 6, 7)):
            NL.stream_definitions(ctx, db, e, k, defs, key="L0", min_k={"sample_variance": 2, "sample_skewness": 3, "sample_excess_kurtosis": 4})
        R.r_sentinel(ctx, db, e, "Moments", N=N_, only=("sample_variance", "sample_skewness", "sample_excess_kurtosis"))
        for k in (2, 3):
            sc = N.est_scenarios(ctx, db, e, only=("sample_variance", "sample_skewness"), count_exact=k)
            N.r_div(ctx, db, e, sc, tag="n=%d:" % k)
    for t, kind in fam[:3]:
        e = Est(db, t)
        if e.exists():
            R.r_sentinel(ctx, db, e, kind, only=("sample_variance", "variance_of_mean", "error", "error_mean"))
    ctx.floor("types with bias-corrected statistics analysed", n, 8)


def weighted_defs(kind):
    import num_laws as NL
    F_ = NL
    sw = lambda o: F_.fsum([a[1] for a in o])
    swx = lambda o: F_.fsum([F_.fmul(a[1], a[0]) for a in o])
    sww = lambda o: F_.fsum([F_.fmul(a[1], a[1]) for a in o])
    xs = lambda o: [a[0] for a in o]
    d = {}
    if kind == "WeightedMean":
        d["mean"] = lambda o: F_.fdiv(swx(o), sw(o))
        d["sum_weights"] = sw
    else:
        d["weighted_mean"] = lambda o: F_.fdiv(swx(o), sw(o))
        d["sum_weights"] = sw
        d["sum_weights_sq"] = sww
        d["effective_len"] = lambda o: F_.fdiv(F_.fmul(sw(o), sw(o)), sww(o))
        d["unweighted_mean"] = lambda o: F_.mean_of(xs(o))
        d["population_variance"] = lambda o: F_.central(xs(o), 2)
        d["sample_variance"] = lambda o: F_.fdiv(F_.fmul(F_.central(xs(o), 2), F_.flit(len(o))), F_.flit(len(o) - 1))
        d["variance_of_weighted_mean"] = lambda o: F_.fmul(F_.fdiv(F_.fmul(F_.central(xs(o), 2), F_.flit(len(o))), F_.flit(len(o) - 1)),
                                                           F_.fdiv(sww(o), F_.fmul(sw(o), sw(o))))
    return d


def cov_defs():
    import num_laws as NL
    import fnode as F
    F_ = NL
    xs = lambda o: [a[0] for a in o]
    ys = lambda o: [a[1] for a in o]

    def co(o):
        mx, my = F_.mean_of(xs(o)), F_.mean_of(ys(o))
        return F_.fsum([F_.fmul(F_.fsub(a[0], mx), F_.fsub(a[1], my)) for a in o])
    d = {
        "mean_x": lambda o: F_.mean_of(xs(o)), "mean_y": lambda o: F_.mean_of(ys(o)),
        "population_variance_x": lambda o: F_.central(xs(o), 2), "population_variance_y": lambda o: F_.central(ys(o), 2),
        "sample_variance_x": lambda o: F_.fdiv(F_.fmul(F_.central(xs(o), 2), F_.flit(len(o))), F_.flit(len(o) - 1)),
        "sample_variance_y": lambda o: F_.fdiv(F_.fmul(F_.central(ys(o), 2), F_.flit(len(o))), F_.flit(len(o) - 1)),
        "population_covariance": lambda o: F_.fdiv(co(o), F_.flit(len(o))),
        "sample_covariance": lambda o: F_.fdiv(co(o), F_.flit(len(o) - 1)),
        "pearson": lambda o: F_.fdiv(co(o), F.fn("sqrt", F_.fmul(F_.fmul(F_.central(xs(o), 2), F_.flit(len(o))), F_.fmul(F_.central(ys(o), 2), F_.flit(len(o)))))),
    }
    return d


def c08(ctx):
    import num_laws as NL
    import num_rules as N
    import forward_rules as FW
    db = ctx.db("B")
    n = 0
    for t, kind, wstats in (("weighted_mean::WeightedMean", "WeightedMean", ("mean", "sum_weights", "is_empty")),
                            ("weighted_mean::WeightedMeanWithError", "WeightedMeanWithError",
                             ("weighted_mean", "sum_weights", "sum_weights_sq"))):
        r = numeric(ctx, db, t, ("dim", "sign", "div", "shift") + (("count",) if kind != "WeightedMean" else ()), weighted=True,
                    laws=("L1", "L2", "L3", "L4"))
        if not r:
            continue
        n += 1
        e, scen = r
        N.r_zerow(ctx, db, e, wstats)
        N.r_convex(ctx, db, e, scen, N.mean_fields(scen), weighted=True)
        R.r_ident_merge(ctx, db, e)
        FW.r_forward_ingest(ctx, db, e, max_items=2)
        NL.accessor_laws(ctx, db, e)
        for k in ((1, 3) if ctx.tier == "quick" else (1, 2, 3, 4, 5)):
            NL.stream_definitions(ctx, db, e, k, weighted_defs(kind), arity=2, build_args="weighted",
                                  min_k={"sample_variance": 2, "variance_of_weighted_mean": 2})
    ctx.floor("weighted estimators analysed", n, 2)


def c09(ctx):
    import num_laws as NL
    import num_rules as N
    import forward_rules as FW
    db = ctx.db("B")
    r = numeric(ctx, db, "covariance::Covariance", ("count", "dim", "sign", "div", "shift"), pair=True, laws=("L1", "L2", "L3", "L4"))
    n = 0
    if r:
        n = 1
        e, scen = r
        R.r_ident_merge(ctx, db, e)
        FW.r_forward_ingest(ctx, db, e, max_items=2)
        for k in ((1, 2, 4) if ctx.tier == "quick" else (1, 2, 3, 4, 5)):
            NL.stream_definitions(ctx, db, e, k, cov_defs(), arity=2, build_args="pair",
                                  min_k={"sample_variance_x": 2, "sample_variance_y": 2, "sample_covariance": 2, "pearson": 2})
        NL.cov_swap(ctx, db, e, 3)
    ctx.floor("Covariance analysed", n, 1)


def c17(ctx):
    import num_rules as N
    db = ctx.db("B")
    n = 0
    specs = [("moments::Mean", {}, ()), ("moments::Variance", {}, ()), ("moments::Skewness", {}, ()), ("moments::Kurtosis", {}, ()),
             ("covariance::Covariance", {"pair": True}, ()),
             ("weighted_mean::WeightedMean", {"weighted": True}, ()), ("weighted_mean::WeightedMeanWithError", {"weighted": True}, ())]
    for t, kw, _ in specs:
        e = Est(db, t)
        if not e.exists():
            continue
        n += 1
        scen = N.est_scenarios(ctx, db, e, **kw)
        N.r_sign(ctx, db, e, scen, weighted=kw.get("weighted", False))
        if kw.get("pair"):
            N.r_convex(ctx, db, e, scen, N.mean_fields(scen, ("mean_x",)), axis_params=(0,), label="X")
            N.r_convex(ctx, db, e, scen, N.mean_fields(scen, ("mean_y",)), axis_params=(1,), label="Y")
            N.r_shift(ctx, db, e, scen, N.mean_fields(scen, ("mean_x",)), axis_params=(0,), label="X")
            N.r_shift(ctx, db, e, scen, N.mean_fields(scen, ("mean_y",)), axis_params=(1,), label="Y")
            N.r_shift(ctx, db, e, scen, N.mean_fields(scen, ("mean_x", "mean_y")), axis_params=(0, 1), label="X and Y jointly")
        else:
            N.r_convex(ctx, db, e, scen, N.mean_fields(scen), weighted=kw.get("weighted", False))
            N.r_shift(ctx, db, e, scen, N.mean_fields(scen))
    for t, N_ in moment_types(ctx, db):
        e = Est(db, t)
        n += 1
        scen = N.est_scenarios(ctx, db, e, accessor_args={"central_moment": [(2,)]}, skip=("sample_skewness", "sample_excess_kurtosis"))
        scen["contracts"] = moment_contracts(N_)
        N.r_sign(ctx, db, e, scen)
        N.r_convex(ctx, db, e, scen, N.mean_fields(scen))
    import hist_rules as H
    for e, ln, consts in hist_types(ctx, db):
        if ln <= 4:
            H.r_bin_variance_range(ctx, db, e, ln, consts)
    ctx.floor("estimator types analysed for signs/ranges", n, 10)


PROPS = {
    "C08": {"run": c08, "level": "other", "explanation": "weighted mean"},
    "C09": {"run": c09, "level": "other", "explanation": "covariance"},
    "C17": {"run": c17, "level": "other", "explanation": "signs and ranges"},
    "C10": {"run": c10, "level": "other", "explanation": "sample statistics"},
    "C03": {"run": c03, "level": "other", "explanation": "skewness/kurtosis"},
    "C04": {"run": c04, "level": "other", "explanation": "define_moments"},
    "C18": {"run": c18, "level": "other", "explanation": "serde structure"},
    "C19": {"run": c19, "level": "other", "explanation": "rayon wiring"},
    "C20": {"run": c20, "level": "proof", "explanation": "ingestion"},
    "C14": {"run": c14, "level": "proof", "explanation": "minmax"},
    "C06": {"run": c06, "level": "other", "explanation": "find/add"},
    "C12": {"run": c12, "level": "other", "explanation": "construction"},
    "C13": {"run": c13, "level": "proof", "explanation": "merge/views"},
    "C05": {"run": c05, "level": "other", "explanation": "P2 step"},
    "C07": {"run": c07, "level": "other", "explanation": "small sample"},
    "C15": {"run": c15, "level": "other", "explanation": "bookkeeping"},
    "C11": {"run": c11, "level": "proof", "explanation": "merge identity"},
    "C16": {"run": c16, "level": "proof", "explanation": "sentinel table"},
    "C02": {"run": c02, "level": "other", "explanation": "merge laws"},
    "C01": {"run": c01, "level": "other",
            "explanation": "Decides the structural clauses of C01 (count discipline, ...); the forward-error envelope is not decided."},
}
