"""Per-property drivers: which rules are armed for which anchors (DESIGN §5)."""
import rules as R
from scen import Est

MOMENT_FAMILY = ["moments::Mean", "moments::Variance", "moments::Skewness", "moments::Kurtosis", "Moments4"]
HARNESS_MOMENTS = ["m4::M4", "m5::M5", "m6::M6", "m8::M8", "m10::M10"]


def cfgs(ctx):
    return ["A", "B"] if ctx.tier == "quick" else ["A", "B", "C", "D"]


def c01(ctx):
    for cfg in ("A", "B"):
        db = ctx.db(cfg)
        n = 0
        for t in ("moments::Mean", "moments::Variance"):
            e = Est(db, t)
            if not e.exists():
                continue
            n += 1
            R.r_count(ctx, db, e, cfg)
            if cfg == 'B': R.laws_add_merge(ctx, db, e)
        ctx.floor("estimator types analysed (cfg %s)" % cfg, n, 2)


def c02(ctx):
    db = ctx.db("B")
    n = 0
    for t in MOMENT_FAMILY + HARNESS_MOMENTS:
        e = Est(db, t)
        if not e.exists():
            continue
        n += 1
        import time
        t0 = time.time()
        R.r_count(ctx, db, e, "B")
        which = ("L2", "L3", "L4")
        R.laws_add_merge(ctx, db, e, which)
        R.r_ident_merge(ctx, db, e)
        print(t, "%.1fs" % (time.time() - t0))
    ctx.floor("Merge types of the moment family analysed", n, 10)


EST_KINDS = [
    ("moments::Mean", "Mean", {}), ("moments::Variance", "Variance", {}), ("moments::Skewness", "Skewness", {}),
    ("moments::Kurtosis", "Kurtosis", {}), ("Moments4", "Moments", {"N": 4}),
    ("m4::M4", "Moments", {"N": 4}), ("m5::M5", "Moments", {"N": 5}), ("m6::M6", "Moments", {"N": 6}),
    ("m8::M8", "Moments", {"N": 8}), ("m10::M10", "Moments", {"N": 10}),
    ("weighted_mean::WeightedMean", "WeightedMean", {"weighted": True}),
    ("weighted_mean::WeightedMeanWithError", "WeightedMeanWithError", {"weighted": True}),
    ("covariance::Covariance", "Covariance", {}), ("minmax::Min", "Min", {}), ("minmax::Max", "Max", {}),
]


def quantile_ctor(m):
    import fnode as F
    p = F.atom("p")
    m.order.set_nan(p, False)
    m.order.assume("Ge", p, F.ZERO, True)
    m.order.assume("Le", p, F.ONE, True)
    return [p]


def c16(ctx):
    db = ctx.db("B")
    cells = 0
    types = 0
    for path, kind, kw in EST_KINDS:
        e = Est(db, path)
        if not e.exists():
            continue
        if ctx.tier == "quick" and path in ("m8::M8", "m10::M10", "m4::M4"):
            continue
        types += 1
        cells += R.r_sentinel(ctx, db, e, kind, N=kw.get("N"), weighted=kw.get("weighted", False))
        leaf = R.count_leaf(ctx, db, e)
        if e.add and kind not in ("Min", "Max"):
            R.r_const_induction(ctx, db, e, leaf, weighted=kw.get("weighted", False))
        # states of the table reached through Default or through merges with empty estimators
        R.r_default_is_new(ctx, db, e)
        R.r_ident_merge(ctx, db, e, assume=R.nonnan_state if kind in ("Min", "Max") else None)
    q = Est(db, "quantile::Quantile")
    if q.exists():
        types += 1
        cells += R.r_sentinel(ctx, db, q, "Quantile", ctor_args=quantile_ctor)
        import fnode as F
        R.r_default_is_new(ctx, db, q, new_args=lambda m: [F.lit(0.5)])
    ctx.floor("estimator types with a sentinel table", types, 11)
    ctx.floor("sentinel table cells evaluated", cells, 120)


HIST_TYPES = [("hist::Histogram", 10), ("h1::Histogram", 1), ("h2::Histogram", 2), ("h3::Histogram", 3),
              ("h4::Histogram", 4), ("h10::Histogram", 10), ("h100::Histogram", 100)]
MERGE_TYPES = ["moments::Mean", "moments::Variance", "moments::Skewness", "moments::Kurtosis", "Moments4",
               "m5::M5", "m6::M6", "m8::M8", "m10::M10", "minmax::Min", "minmax::Max",
               "weighted_mean::WeightedMean", "weighted_mean::WeightedMeanWithError", "covariance::Covariance"]


def c11(ctx):
    db = ctx.db("B")
    n = 0
    for t in MERGE_TYPES:
        e = Est(db, t)
        if not e.exists() or not e.merge:
            continue
        if ctx.tier == "quick" and t in ("m8::M8", "m10::M10"):
            continue
        n += 1
        R.r_ident_merge(ctx, db, e, assume=R.nonnan_state if t.startswith("minmax") else None)
        if e.m("len", None):
            R.r_count(ctx, db, e, "B")
        R.r_derived_clone(ctx, db, e)
    ctx.floor("Merge impls analysed (non-histogram)", n, 11)
    nh = 0
    for t, ln in HIST_TYPES:
        if ctx.tier == "quick" and ln > 10:
            continue
        e = Est(db, t)
        if not e.exists():
            continue
        nh += 1
        R.r_hist_merge_identity(ctx, db, e, ln)
    ctx.floor("histogram Merge impls analysed", nh, 5)
    if "A" in cfgs(ctx):
        dba = ctx.db("A")
        e = Est(dba, "histogram_const::Histogram")
        if e.exists():
            for ln in (1, 3):
                R.r_hist_merge_identity(ctx, dba, e, ln, consts={"LEN": ln})
    R.r_no_interior_mutability(ctx, db)


def quantile_est(ctx, cfg="B"):
    import quantile_rules as Q
    db = ctx.db(cfg)
    e = Est(db, Q.QPATH)
    if not e.exists() or not e.add or not e.new:
        ctx.floor("Quantile type with new/add present", 0, 1)
        return None, None, None
    roles, _ = Q.role_fields(db, e)
    if set(roles) != {"q", "n", "m", "dm"}:
        ctx.ob("R-P2", "roles", Q.QPATH, "-", False, "cannot identify heights/positions/desired/increments arrays from new(p): %s" % roles, inc=True)
        return None, None, None
    return db, e, roles


def c05(ctx):
    import quantile_rules as Q
    db, e, roles = quantile_est(ctx)
    if e is None:
        return
    Q.r_p2_init(ctx, db, e, roles)
    n = Q.r_p2_step(ctx, db, e, roles)
    ctx.floor("abstract paths of Quantile::add (>= 5 observations) compared with the specification", n, 100)


def c07(ctx):
    import quantile_rules as Q
    db, e, roles = quantile_est(ctx)
    if e is None:
        return
    grid = [k / 8.0 for k in range(0, 9)] if ctx.tier == "quick" else sorted(set([k / 16.0 for k in range(0, 17)] + [k / 3.0 for k in range(4)] + [0.1, 0.3, 0.7, 0.9, 1e-9, 1 - 1e-9]))
    n = Q.r_small_quantile(ctx, db, e, roles, grid)
    ctx.floor("(n, p) grid cases of the small-sample quantile", n, 36)


def c15(ctx):
    import quantile_rules as Q
    db, e, roles = quantile_est(ctx)
    if e is None:
        return
    Q.r_quantile_ctor(ctx, db, e)
    R.r_count(ctx, db, e, "B", expect_merge=False, check_add=False)
    Q.r_count_small(ctx, db, e, roles)
    # extreme markers and the count follow the specified step
    Q.r_p2_step(ctx, db, e, roles, only={("q", 0), ("q", 4), ("n", 4), ("dm", 0), ("dm", 1), ("dm", 2), ("dm", 3), ("dm", 4)},
                rule="R-P2", label=":extremes")
    Q.r_p2_init(ctx, db, e, roles)
    R.r_sentinel(ctx, db, e, "Quantile", ctor_args=quantile_ctor)


def hist_types(ctx, db):
    out = []
    for t, ln in HIST_TYPES:
        if ctx.tier == "quick" and (ln > 4 and t != "hist::Histogram"):
            continue
        e = Est(db, t)
        if e.exists():
            out.append((e, ln, None))
    return out


def hist_const_types(ctx):
    if "A" not in cfgs(ctx):
        return None, []
    dba = ctx.db("A")
    e = Est(dba, "histogram_const::Histogram")
    if not e.exists():
        return dba, []
    lens = (1, 3) if ctx.tier == "quick" else (1, 2, 3, 4, 10)
    return dba, [(e, ln, {"LEN": ln}) for ln in lens]


def c06(ctx):
    import hist_rules as H
    db = ctx.db("B")
    n = 0
    for e, ln, consts in hist_types(ctx, db):
        n += 1
        H.r_find_add(ctx, db, e, ln, consts)
    dba, hs = hist_const_types(ctx)
    for e, ln, consts in hs:
        n += 1
        H.r_find_add(ctx, dba, e, ln, consts)
    ctx.floor("histogram instantiations analysed (find/add)", n, 6)
    ctx.notes.append("decided for strictly increasing edges under the documented contract of [T]::binary_search_by; with repeated edges the bin "
                     "returned for a sample equal to the repeated edge depends on which equal index the standard library returns (unspecified)")


def c12(ctx):
    import hist_rules as H
    db = ctx.db("B")
    n = 0
    for e, ln, consts in hist_types(ctx, db):
        if ln <= 4 or ctx.tier == "thorough":
            n += H.r_from_ranges(ctx, db, e, ln, consts)
        H.r_const_width(ctx, db, e, ln, consts)
    dba, hs = hist_const_types(ctx)
    for e, ln, consts in hs:
        if ln <= 4:
            n += H.r_from_ranges(ctx, dba, e, ln, consts)
        H.r_const_width(ctx, dba, e, ln, consts)
    ctx.floor("abstract paths of from_ranges compared with the C12 table", n, 60)


def c13(ctx):
    import hist_rules as H
    db = ctx.db("B")
    n = 0
    for e, ln, consts in hist_types(ctx, db):
        n += 1
        H.r_merge_addassign(ctx, db, e, ln, consts)
        H.r_scale_reset(ctx, db, e, ln, consts)
        H.r_iter_views(ctx, db, e, ln, consts)
    dba, hs = hist_const_types(ctx)
    for e, ln, consts in hs:
        n += 1
        H.r_merge_addassign(ctx, dba, e, ln, consts)
        H.r_scale_reset(ctx, dba, e, ln, consts)
        H.r_iter_views(ctx, dba, e, ln, consts)
    ctx.floor("histogram instantiations analysed (merge/views)", n, 6)


def c14(ctx):
    import minmax_rules as MM
    n = 0
    for cfg in ("B", "A"):
        db = ctx.db(cfg)
        for t, is_min in (("minmax::Min", True), ("minmax::Max", False)):
            e = Est(db, t)
            if not e.exists():
                continue
            n += 1
            MM.r_minmax(ctx, db, e, is_min)
            if cfg == "B":
                R.r_ident_merge(ctx, db, e, assume=R.nonnan_state)
                R.r_default_is_new(ctx, db, e)
                import forward_rules as FW
                FW.r_forward_ingest(ctx, db, e)
    ctx.floor("Min/Max types analysed", n, 4)


CAT_SPECS = {
    "cat::MinMax": [("min", "minmax::Min", ["min"]), ("max", "minmax::Max", ["max"])],
    "cat::OnlyMean": [("mean", "moments::Mean", ["mean"])],
    "cat::MeanVar": [("var", "moments::Variance", ["mean", "sample_variance", "population_variance"])],
    "cat::Three": [("lo", "minmax::Min", ["min"]), ("v", "moments::Variance", ["mean", "sample_variance"]), ("hi", "minmax::Max", ["max"])],
    "cat::WithQuantile": [("quantile", "quantile::Quantile", ["quantile"]), ("mean", "moments::Mean", ["mean"])],
    "cat::Shape": [("skewness", "moments::Skewness", ["skewness"]), ("kurtosis", "moments::Kurtosis", ["kurtosis"])],
    "cat::Four": [("lo", "minmax::Min", ["min"]), ("hi", "minmax::Max", ["max"]), ("k", "moments::Kurtosis", ["mean", "kurtosis", "skewness"]),
                  ("q", "quantile::Quantile", ["quantile"])],
}
INGEST_TYPES = ["moments::Mean", "moments::Variance", "moments::Skewness", "moments::Kurtosis", "Moments4", "m5::M5", "m6::M6",
                "minmax::Min", "minmax::Max", "weighted_mean::WeightedMean", "weighted_mean::WeightedMeanWithError",
                "covariance::Covariance"]
RAYON_TYPES = ["moments::Mean", "moments::Variance", "moments::Skewness", "moments::Kurtosis", "Moments4", "minmax::Min", "minmax::Max",
               "m4::M4", "m5::M5", "m6::M6", "m8::M8", "m10::M10"]
SERDE_TYPES = ["moments::Mean", "moments::Variance", "moments::Skewness", "moments::Kurtosis", "Moments4", "minmax::Min", "minmax::Max",
               "quantile::Quantile", "weighted_mean::WeightedMean", "weighted_mean::WeightedMeanWithError", "covariance::Covariance",
               "hist::Histogram", "m4::M4", "m5::M5", "m6::M6", "m8::M8", "m10::M10", "h1::Histogram", "h2::Histogram", "h3::Histogram",
               "h4::Histogram", "h10::Histogram", "h100::Histogram"]


def c20(ctx):
    import forward_rules as FW
    db = ctx.db("B")
    n_ing = n_est = n_cat = 0
    for t in INGEST_TYPES:
        e = Est(db, t)
        if not e.exists():
            continue
        n_ing += FW.r_forward_ingest(ctx, db, e, max_items=2 if ctx.tier == "quick" else 3,
                                     state_assume=R.nonnan_state if t.startswith("minmax") else None)
        n_est += FW.r_estimate_headline(ctx, db, e, assume=R.nonnan_state if t.startswith("minmax") else None)
        R.r_default_is_new(ctx, db, e)
    q = Est(db, "quantile::Quantile")
    if q.exists():
        import fnode as F
        n_est += FW.r_estimate_headline(ctx, db, q)
        R.r_default_is_new(ctx, db, q, new_args=lambda m: [F.lit(0.5)])
    for path, spec in CAT_SPECS.items():
        if ctx.tier == "quick" and path in ("cat::Four", "cat::WithQuantile"):
            # Quantile::add has thousands of abstract paths; the two Quantile-bearing shapes run in the thorough tier
            continue
        n_cat += FW.r_concatenate(ctx, db, path, spec)
        e = Est(db, path)
        if e.exists() and path not in ("cat::Four", "cat::WithQuantile"):
            n_ing += FW.r_forward_ingest(ctx, db, e, max_items=2)
    ctx.floor("FromIterator/Extend impls analysed", n_ing, 40)
    ctx.floor("Estimate::estimate impls analysed", n_est, 7)
    ctx.floor("concatenate! obligations", n_cat, 20)


def c19(ctx):
    import forward_rules as FW
    db = ctx.db("A")
    n = 0
    for t in RAYON_TYPES:
        e = Est(db, t)
        if not e.exists():
            continue
        if ctx.tier == "quick" and t in ("m8::M8", "m10::M10", "m4::M4"):
            continue
        n += FW.r_rayon(ctx, db, e, assume=R.nonnan_state if t.startswith("minmax") else None)
        # preconditions rayon's fold/reduce contract needs: exact identity and the merge laws
        R.r_ident_merge(ctx, db, e, assume=R.nonnan_state if t.startswith("minmax") else None)
        if not t.startswith("minmax"):
            R.laws_add_merge(ctx, db, e, ("L2", "L3", "L4"))
            R.r_count(ctx, db, e, "A")
    ctx.floor("from_par_iter impls analysed", n, 18)


def c18(ctx):
    import forward_rules as FW
    db = ctx.db("A")
    n = 0
    for t in SERDE_TYPES:
        n += FW.r_serde(ctx, db, t)
    ctx.floor("state structs with serde impls analysed", n, 20)
    seen = sum(1 for a in db.adts.values() for v in a["variants"] for f in v["fields"] if any("serde" in x for x in f.get("ast_attrs", [])))
    ctx.floor("serde field attributes visible in the expanded AST (positive control: BigArray on histogram arrays)", seen, 14)
    R.r_no_interior_mutability(ctx, db)
    # nested state reachable from the listed structs must itself be listed
    for t in SERDE_TYPES:
        a = db.adts.get(t)
        if not a:
            continue
        for f in a["variants"][0]["fields"]:
            ty = f["ty"]
            while ty["k"] == "array":
                ty = ty["elem"]
            if ty["k"] == "adt":
                ctx.ob("R-SERDE", "nested-state-covered", t, "-", ty["path"] in SERDE_TYPES, "field %s has state type %s" % (f["name"], ty["path"]), nontrivial=False)


PROPS = {
    "C18": {"run": c18, "level": "other", "explanation": "serde structure"},
    "C19": {"run": c19, "level": "other", "explanation": "rayon wiring"},
    "C20": {"run": c20, "level": "proof", "explanation": "ingestion"},
    "C14": {"run": c14, "level": "proof", "explanation": "minmax"},
    "C06": {"run": c06, "level": "other", "explanation": "find/add"},
    "C12": {"run": c12, "level": "other", "explanation": "construction"},
    "C13": {"run": c13, "level": "proof", "explanation": "merge/views"},
    "C05": {"run": c05, "level": "other", "explanation": "P2 step"},
    "C07": {"run": c07, "level": "other", "explanation": "small sample"},
    "C15": {"run": c15, "level": "other", "explanation": "bookkeeping"},
    "C11": {"run": c11, "level": "proof", "explanation": "merge identity"},
    "C16": {"run": c16, "level": "proof", "explanation": "sentinel table"},
    "C02": {"run": c02, "level": "other", "explanation": "merge laws"},
    "C01": {"run": c01, "level": "other",
            "explanation": "Decides the structural clauses of C01 (count discipline, ...); the forward-error envelope is not decided."},
}
