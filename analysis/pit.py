"""D7 (engine 1) — exact rational-function identity testing of residuals.

Two residuals over the same atoms denote the same rational function over the reals iff they agree
at sufficiently many points (Schwartz–Zippel).  The residual DAGs are evaluated in exact rational
arithmetic (fractions.Fraction) at K points drawn from a fixed-seed generator; no floating point
and no program execution is involved — this is a decision procedure for the algebraic identity
between two *expressions* the partial evaluator produced.  Square roots are exact when the
radicand is a perfect-square rational at the sample point (sample points are squares so that
sqrt(count), sqrt(sum of squares) are rational); otherwise `NeedSymbolic` is raised and the
caller falls back to the sympy engine (d7.py).
"""
import math
import random
from fractions import Fraction

import fnode as F
from lin import Lin
from qsqrt import QS, simplify as qsimp


class NeedSymbolic(Exception):
    pass


class Undefined(Exception):
    """division by zero etc. at the sample point: resample"""


def isqrt_frac(v):
    """exact square root: a Fraction when v is a perfect square, else an element of a
    multiquadratic extension of Q (qsqrt.QS)"""
    if isinstance(v, QS):
        fr = v.as_fraction()
        if fr is None:
            raise NeedSymbolic("nested radical")
        v = fr
    if v < 0:
        raise Undefined()
    n, d = v.numerator, v.denominator
    rn, rd = math.isqrt(n), math.isqrt(d)
    if rn * rn == n and rd * rd == d:
        return Fraction(rn, rd)
    try:
        return QS.sqrt_of(v)
    except ValueError as e:
        raise NeedSymbolic(str(e))


def _is0(v):
    return v.is_zero() if isinstance(v, QS) else v == 0


def _sgn(v):
    if isinstance(v, QS):
        return v.sign()
    return (v > 0) - (v < 0)


class Point:
    def __init__(self, rng, int_bounds=None, squares=True, given=None, integers=False):
        self.integers = integers
        self.rng = rng
        self.vals = {}
        self.ints = {}
        self.int_bounds = int_bounds or {}
        self.squares = squares
        self.given = given or {}

    def atom(self, name):
        v = self.vals.get(name)
        if v is None:
            if name in self.given:
                v = Fraction(self.given[name])
            elif self.integers:
                v = Fraction(self.rng.randint(1, 12) * (1 if self.rng.random() < 0.7 else -1))
            else:
                a = self.rng.randint(2, 40)
                b = self.rng.randint(1, 9)
                v = Fraction(a * a, b * b) if self.squares else Fraction(a, b)
                if self.rng.random() < 0.5 and not name.endswith("!pos"):
                    pass
            self.vals[name] = v
        return v

    def intsym(self, name):
        v = self.ints.get(name)
        if v is None:
            lo, hi = self.int_bounds.get(name, (1, None))
            lo = max(lo, 0)
            if hi is not None and hi - lo < 50:
                v = self.rng.randint(lo, hi)
            else:
                # perfect squares so that sqrt(n) is rational
                k = self.rng.randint(2, 9)
                v = max(lo, k * k)
                if self.squares:
                    r = math.isqrt(v)
                    if r * r != v:
                        v = (r + 1) * (r + 1)
            self.ints[name] = v
        return v


def eval_lin(key, pt):
    terms, c = key
    v = c
    for s, k in terms:
        v += k * pt.intsym(s)
    return v


def evaluate(n, pt, memo=None):
    if memo is None:
        memo = {}
    stack = [(n, False)]
    while stack:
        x, done = stack.pop()
        if x in memo:
            continue
        k = x[0]
        if k == "lit":
            v = F.litval(x)
            if v != v or v in (float("inf"), float("-inf")):
                raise Undefined()
            memo[x] = Fraction(v)
            continue
        if k == "atom":
            memo[x] = pt.atom(x[1])
            continue
        if k == "i2f":
            memo[x] = Fraction(eval_lin(x[1], pt))
            continue
        if k == "opq":
            raise NeedSymbolic("opaque value")
        kids = [a for a in (x[2:] if k == "fn" else x[1:]) if isinstance(a, tuple) and a and isinstance(a[0], str) and a[0] in ("atom", "lit", "i2f", "add", "sub", "mul", "div", "neg", "fn", "opq")]
        if not done:
            stack.append((x, True))
            for a in kids:
                if a not in memo:
                    stack.append((a, False))
            continue
        if k == "neg":
            memo[x] = -memo[x[1]]
        elif k == "add":
            memo[x] = memo[x[1]] + memo[x[2]]
        elif k == "sub":
            memo[x] = memo[x[1]] - memo[x[2]]
        elif k == "mul":
            memo[x] = memo[x[1]] * memo[x[2]]
        elif k == "div":
            d = memo[x[2]]
            if _is0(d):
                raise Undefined()
            memo[x] = qsimp(memo[x[1]] / d)
        elif k == "fn":
            name = x[1]
            if name == "sqrt":
                memo[x] = isqrt_frac(memo[x[2]])
            elif name == "lossy_f32":
                # a narrowing conversion is not the identity: perturb so that identities which
                # hold only for exact arithmetic are refuted
                memo[x] = memo[x[2]] * Fraction(1000003, 1000000)
            elif name == "abs":
                v = memo[x[2]]
                memo[x] = v if _sgn(v) >= 0 else -v
            elif name == "powi":
                b = memo[x[2]]
                e = x[3]
                if e < 0 and _is0(b):
                    raise Undefined()
                memo[x] = b ** e
            elif name == "powf":
                e = x[3]
                if not F.is_lit(e):
                    raise NeedSymbolic("powf with symbolic exponent")
                ef = Fraction(F.litval(e)).limit_denominator(64)
                b = memo[x[2]]
                if ef.denominator == 1:
                    memo[x] = b ** int(ef)
                elif ef.denominator == 2:
                    if _sgn(b) < 0:
                        raise Undefined()
                    memo[x] = qsimp(isqrt_frac(b) ** ef.numerator)
                else:
                    raise NeedSymbolic("powf exponent %s" % ef)
            elif name == "min":
                a, b = memo[x[2]], memo[x[3]]
                memo[x] = a if _sgn(a - b) <= 0 else b
            elif name == "max":
                a, b = memo[x[2]], memo[x[3]]
                memo[x] = a if _sgn(a - b) >= 0 else b
            elif name == "signum":
                v = memo[x[2]]
                memo[x] = Fraction(1) if _sgn(v) >= 0 else Fraction(-1)
            elif name == "ceil":
                v = memo[x[2]]
                if isinstance(v, QS):
                    raise NeedSymbolic("ceil of radical")
                memo[x] = Fraction(math.ceil(v))
            elif name == "floor":
                v = memo[x[2]]
                if isinstance(v, QS):
                    raise NeedSymbolic("floor of radical")
                memo[x] = Fraction(math.floor(v))
            elif name == "sorted":
                import functools
                vals = sorted((memo[a] for a in x[4:]), key=functools.cmp_to_key(lambda p, q: _sgn(p - q)))
                memo[x] = vals[x[3]]
            else:
                raise NeedSymbolic("fn " + name)
        else:
            raise NeedSymbolic("node " + k)
    return memo[n]


def identical(pairs, seed=1, points=4, int_bounds=None, given=None, squares=True, integers=False):
    """pairs: list of (label, nodeA, nodeB).  Returns (ok, first_difference) where
    first_difference = (label, point, valueA, valueB).  Raises NeedSymbolic."""
    rng = random.Random(seed)
    done = 0
    tries = 0
    while done < points and tries < points * 20:
        tries += 1
        pt = Point(rng, int_bounds, squares, given, integers)
        memo = {}
        try:
            vals = [(lab, evaluate(a, pt, memo), evaluate(b, pt, memo)) for lab, a, b in pairs]
        except Undefined:
            continue
        for lab, va, vb in vals:
            if not _is0(va - vb):
                return False, (lab, {**pt.vals, **{"int:" + k: v for k, v in pt.ints.items()}}, va, vb)
        done += 1
    if done < points:
        raise NeedSymbolic("could not find enough defined sample points")
    return True, None


def is_zero(node, **kw):
    return identical([("", node, F.ZERO)], **kw)
