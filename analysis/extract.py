"""E0 front end: build the fact extractor, run it over /repo (+ the harness crate) and cache the
fact files by content hash.

Nothing in /repo is executed: `cargo +nightly check` type-checks and lowers to MIR; the driver
(`/verif/driver`) serialises the resolved program.  The cache key is a sha256 over the *content*
of the repository sources, the harness and the driver binary, so an edited /repo is always
re-extracted.
"""
import fcntl
import hashlib
import json
import os
import shutil
import subprocess
import sys
import time

VERIF = os.path.dirname(os.path.dirname(os.path.abspath(__file__)))
CACHE = os.environ.get("AVG_CACHE", os.path.join(VERIF, ".cache"))
DRIVER_DIR = os.path.join(VERIF, "driver")
DRIVER_BIN = os.path.join(DRIVER_DIR, "target", "release", "avgfacts")
HARNESS_DIR = os.path.join(VERIF, "harness")

# cfg name -> (harness features, uses default features)
CFGS = {
    "A": ("serde,rayon,nightly,libm", False),
    "B": ("libm", False),
    "C": ("", False),
    "D": ("std", False),
}


def repo_path():
    return os.path.abspath(os.environ.get("AVG_REPO", "/repo"))


def _sha_tree(h, root, rel_ok):
    for dirpath, dirnames, filenames in sorted(os.walk(root)):
        dirnames.sort()
        if "target" in dirnames:
            dirnames.remove("target")
        if ".git" in dirnames:
            dirnames.remove(".git")
        for f in sorted(filenames):
            p = os.path.join(dirpath, f)
            rel = os.path.relpath(p, root)
            if not rel_ok(rel):
                continue
            h.update(rel.encode())
            h.update(b"\0")
            with open(p, "rb") as fh:
                h.update(fh.read())
            h.update(b"\0")


def tree_key(repo):
    h = hashlib.sha256()
    _sha_tree(h, repo, lambda r: r.startswith("src" + os.sep) or r in ("Cargo.toml", "Cargo.lock"))
    _sha_tree(h, HARNESS_DIR, lambda r: r.startswith("src" + os.sep) or r == "Cargo.toml")
    if os.path.exists(DRIVER_BIN):
        with open(DRIVER_BIN, "rb") as fh:
            h.update(hashlib.sha256(fh.read()).digest())
    return h.hexdigest()


def sysroot():
    return subprocess.check_output(["rustc", "+nightly", "--print", "sysroot"], text=True).strip()


def build_driver(log=sys.stderr):
    """Build the driver if its binary is missing or older than its sources."""
    srcs = [os.path.join(DRIVER_DIR, "src", f) for f in os.listdir(os.path.join(DRIVER_DIR, "src"))]
    srcs.append(os.path.join(DRIVER_DIR, "Cargo.toml"))
    if os.path.exists(DRIVER_BIN) and all(
        os.path.getmtime(DRIVER_BIN) >= os.path.getmtime(s) for s in srcs
    ):
        return
    env = dict(os.environ, CARGO_NET_OFFLINE="true")
    env.pop("RUSTC_WRAPPER", None)
    r = subprocess.run(
        ["cargo", "+nightly", "build", "--release", "--offline"],
        cwd=DRIVER_DIR, env=env, stdout=subprocess.PIPE, stderr=subprocess.STDOUT, text=True)
    if r.returncode != 0:
        log.write(r.stdout)
        raise RuntimeError("driver build failed")


class ExtractError(Exception):
    pass


def ensure_facts(cfg, log=sys.stderr):
    """Return {crate_name: path_to_fact_file} for configuration `cfg`, extracting if needed."""
    repo = repo_path()
    os.makedirs(CACHE, exist_ok=True)
    lock = open(os.path.join(CACHE, "extract.lock"), "w")
    fcntl.flock(lock, fcntl.LOCK_EX)
    try:
        build_driver(log)
        key = tree_key(repo)
        out_dir = os.path.join(CACHE, "facts", key[:24], cfg)
        stamp = os.path.join(out_dir, "OK")
        wanted = ["average", "avg_harness"]
        if os.path.exists(stamp) and all(os.path.exists(os.path.join(out_dir, w + ".json")) for w in wanted):
            try:
                os.utime(os.path.dirname(out_dir), None)
            except OSError:
                pass
            return {w: os.path.join(out_dir, w + ".json") for w in wanted}, key
        if os.path.isdir(out_dir):
            shutil.rmtree(out_dir)
        os.makedirs(out_dir)
        t0 = time.time()
        # materialise the harness with the dependency path pointing at `repo`
        hdir = os.path.join(CACHE, "harness-build")
        if os.path.isdir(hdir):
            shutil.rmtree(hdir)
        os.makedirs(os.path.join(hdir, "src"))
        os.makedirs(os.path.join(hdir, ".cargo"))
        with open(os.path.join(HARNESS_DIR, "Cargo.toml")) as fh:
            toml = fh.read().replace('path = "/repo"', 'path = "%s"' % repo)
        with open(os.path.join(hdir, "Cargo.toml"), "w") as fh:
            fh.write(toml)
        shutil.copy(os.path.join(HARNESS_DIR, "src", "lib.rs"), os.path.join(hdir, "src", "lib.rs"))
        with open(os.path.join(hdir, ".cargo", "config.toml"), "w") as fh:
            fh.write("[net]\noffline = true\n")
        lockf = os.path.join(repo, "Cargo.lock")
        if os.path.exists(lockf):
            shutil.copy(lockf, os.path.join(hdir, "Cargo.lock"))
        # persistent target dir for dependencies; the two analysed crates are always rebuilt
        tdir = os.path.join(CACHE, "target-" + cfg)
        for sub in ("debug/.fingerprint",):
            fp = os.path.join(tdir, sub)
            if os.path.isdir(fp):
                for d in os.listdir(fp):
                    if d.startswith("average-") or d.startswith("avg_harness-") or d.startswith("avg-harness-"):
                        shutil.rmtree(os.path.join(fp, d), ignore_errors=True)
        feats, _ = CFGS[cfg]
        env = dict(os.environ)
        env.update({
            "CARGO_NET_OFFLINE": "true",
            "RUSTC_WRAPPER": DRIVER_BIN,
            "LD_LIBRARY_PATH": sysroot() + "/lib",
            "RUSTFLAGS": "-Zmir-opt-level=0 -Awarnings",
            "CARGO_TARGET_DIR": tdir,
            "AVGFACTS_OUT": out_dir,
            "AVGFACTS_CRATES": ",".join(wanted),
        })
        env.pop("RUSTC_WORKSPACE_WRAPPER", None)
        cmd = ["cargo", "+nightly", "check", "--offline", "--lib", "--no-default-features"]
        if feats:
            cmd += ["--features", feats]
        r = subprocess.run(cmd, cwd=hdir, env=env, stdout=subprocess.PIPE, stderr=subprocess.STDOUT, text=True)
        if r.returncode != 0:
            tail = "\n".join(r.stdout.splitlines()[-40:])
            raise ExtractError("cargo check failed for cfg %s (the tree does not compile?):\n%s" % (cfg, tail))
        for w in wanted:
            if not os.path.exists(os.path.join(out_dir, w + ".json")):
                raise ExtractError("fact file for crate %s missing after extraction (cfg %s)" % (w, cfg))
        with open(stamp, "w") as fh:
            fh.write(json.dumps({"key": key, "cfg": cfg, "wall_s": time.time() - t0, "repo": repo}))
        log.write("[extract] cfg %s: %.1fs -> %s\n" % (cfg, time.time() - t0, out_dir))
        # prune old fact dirs: keep the 12 most recent and everything used in the last half hour
        # (another check process may be about to read a directory it was just handed)
        fdir = os.path.join(CACHE, "facts")
        ds = sorted((os.path.getmtime(os.path.join(fdir, d)), d) for d in os.listdir(fdir))
        for mt, d in ds[:-12]:
            if time.time() - mt > 1800:
                shutil.rmtree(os.path.join(fdir, d), ignore_errors=True)
        return {w: os.path.join(out_dir, w + ".json") for w in wanted}, key
    finally:
        fcntl.flock(lock, fcntl.LOCK_UN)
        lock.close()


if __name__ == "__main__":
    if "--build-only" in sys.argv:
        build_driver()
        print("driver built:", DRIVER_BIN)
        sys.exit(0)
    for c in sys.argv[1:] or ["A", "B"]:
        print(ensure_facts(c))
