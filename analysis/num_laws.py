"""Accessor laws quoted from the properties (L5-L8), decided as identities between the
repository's own accessors on an abstract state (pit: exact rational / radical arithmetic)."""
import fnode as F
from lin import Lin, simp
from machine import Machine, Config, Cell, VRef, explore, is_float, is_int, PathEnd, Unsupported
from scen import Est, Run, Alg, leaf_map, show_val, call, pc_show, is_debug_only
import rules as R
import pit


def n_of(alg, s):
    return F.i2f(simp(alg.acc(s, "len")))


def eval_laws(ctx, db, est, nmin, builder, key, fn, seed=21):
    """builder(alg, s) -> list of (label, lhs, rhs) residual pairs on abstract state s (count >= nmin)"""
    fsite = R.fn_site(db, fn)

    def setup(m):
        alg = Alg(m, est)
        s = alg.sym("S", nmin=nmin)
        return (lambda: builder(alg, s)), {}
    paths, stats = explore(db, setup, Config(release=True), 300)
    ctx.count_run(Run(fn, paths, stats, key))
    for p in paths:
        pcs = pc_show(p.pc) or "unconditional"
        if p.status == "return":
            for lab, a, b in p.ret:
                if not (is_float(a) and is_float(b)):
                    ctx.ob("R-LAW", "%s:%s" % (key, lab), fn, fsite, False, "%s: non-float operands" % lab, inc=True)
                    continue
                if F.is_lit(a) and F.is_nan_lit(a) or F.is_lit(b) and F.is_nan_lit(b):
                    ok = a == b
                    ctx.ob("R-LAW", "%s:%s" % (key, lab), fn, fsite, ok, "%s: sentinel on this path (%s vs %s) [path: %s]" % (lab, F.show(a)[:40], F.show(b)[:40], pcs), nontrivial=False)
                    continue
                try:
                    ok, diff = pit.identical([(lab, a, b)], seed=seed, points=4, int_bounds=R._pit_bounds(p.machine), squares=True)
                except pit.NeedSymbolic as e:
                    try:
                        import d7
                        ok, diff = d7.identical([(lab, a, b)], p.machine, positive=lambda n: True)
                    except Exception as e2:
                        ctx.ob("R-LAW", "%s:%s" % (key, lab), fn, fsite, False, "%s: undecided (%s / %s)" % (lab, e, e2), inc=True)
                        continue
                ctx.ob("R-LAW", "%s:%s" % (key, lab), fn, fsite, ok,
                       ("%s holds as an identity over the reals [path: %s]" % (lab, pcs)) if ok else
                       "%s does NOT hold: at a rational sample point the accessor gives %s, the stated formula %s [path: %s]" % (lab, diff[2], diff[3], pcs),
                       d7=True, sample={"law": lab, "code": F.show(a)[:240], "formula": F.show(b)[:240]})
        elif p.status == "panic":
            if is_debug_only(p.info.get("span") or {}):
                continue
            ctx.ob("R-LAW", key, fn, fsite, False, "evaluation panics: %s [path: %s]" % (p.info.get("kind"), pcs))
        else:
            ctx.ob("R-LAW", key, fn, fsite, False, str(p.info.get("why")), inc=True)


def has(est, *names):
    return all(est.m(n, None) for n in names)


def accessor_laws(ctx, db, est):
    """L8 for the variance family: sample_variance*(n-1) = population_variance*n;
    variance_of_mean*n = sample_variance; error^2 = variance_of_mean"""
    def b(alg, s):
        n = n_of(alg, s)
        out = []
        if has(est, "sample_variance", "population_variance"):
            sv, pv = alg.acc(s, "sample_variance"), alg.acc(s, "population_variance")
            out.append(("sample_variance*(n-1) = population_variance*n", F.mk("mul", sv, F.mk("sub", n, F.ONE)), F.mk("mul", pv, n)))
        if has(est, "variance_of_mean", "sample_variance"):
            out.append(("variance_of_mean*n = sample_variance", F.mk("mul", alg.acc(s, "variance_of_mean"), n), alg.acc(s, "sample_variance")))
        for en, vn in (("error", "variance_of_mean"), ("error_mean", None), ("error", "variance_of_weighted_mean")):
            if vn and has(est, en, vn):
                e = alg.acc(s, en)
                out.append(("%s^2 = %s" % (en, vn), F.mk("mul", e, e), alg.acc(s, vn)))
        return out
    fn = est.m("sample_variance", None) or est.m("population_variance", None)
    if fn:
        eval_laws(ctx, db, est, 2, b, "L8:variance-family", fn)


# ---------------------------------------------------------------------------------------------
# L0: on short abstract streams the streaming result equals the definition the property states


def fsum(xs):
    r = F.ZERO
    for x in xs:
        r = F.mk("add", r, x)
    return r


def fpow(x, p):
    if p == 0:
        return F.ONE
    r = x
    for _ in range(p - 1):
        r = F.mk("mul", r, x)
    return r


def fdiv(a, b):
    return F.mk("div", a, b)


def fmul(a, b):
    return F.mk("mul", a, b)


def fsub(a, b):
    return F.mk("sub", a, b)


def flit(v):
    return F.lit(float(v))


def mean_of(xs):
    return fdiv(fsum(xs), flit(len(xs)))


def central(xs, p):
    mu = mean_of(xs)
    return fdiv(fsum([fpow(fsub(x, mu), p) for x in xs]), flit(len(xs)))


def defs_moments(kind, N=None):
    """accessor -> function(list of observations) -> defining formula (from the property statements)"""
    d = {"mean": lambda xs: mean_of(xs)}
    if kind == "Mean":
        return d
    d["population_variance"] = lambda xs: central(xs, 2)
    d["sample_variance"] = lambda xs: fdiv(fmul(central(xs, 2), flit(len(xs))), flit(len(xs) - 1))
    if kind in ("Variance",):
        d["variance_of_mean"] = lambda xs: fdiv(fdiv(fmul(central(xs, 2), flit(len(xs))), flit(len(xs) - 1)), flit(len(xs)))
        d["error"] = lambda xs: F.fn("sqrt", fdiv(fdiv(fmul(central(xs, 2), flit(len(xs))), flit(len(xs) - 1)), flit(len(xs))))
    if kind in ("Skewness", "Kurtosis"):
        d["skewness"] = lambda xs: fdiv(central(xs, 3), F.fn("powf", central(xs, 2), flit(1.5)))
        d["error_mean"] = lambda xs: F.fn("sqrt", fdiv(fdiv(fmul(central(xs, 2), flit(len(xs))), flit(len(xs) - 1)), flit(len(xs))))
    if kind == "Kurtosis":
        d["kurtosis"] = lambda xs: fsub(fdiv(central(xs, 4), fpow(central(xs, 2), 2)), flit(3))
    if kind == "Moments":
        del d["population_variance"]
        for p in range(0, N + 1):
            d[("central_moment", p)] = (lambda xs, p=p: central(xs, p))
            if p >= 1:
                d[("standardized_moment", p)] = (lambda xs, p=p: fdiv(central(xs, p), F.fn("powf", central(xs, 2), flit(p / 2.0))))
        d[("standardized_moment", 0)] = lambda xs: flit(len(xs))
        # C10: adjusted Fisher-Pearson coefficient and sample excess kurtosis
        d["sample_skewness"] = lambda xs: fmul(fdiv(F.fn("sqrt", flit(len(xs) * (len(xs) - 1))), flit(len(xs) - 2)),
                                               fdiv(central(xs, 3), F.fn("powf", central(xs, 2), flit(1.5))))
        d["sample_excess_kurtosis"] = lambda xs: fmul(flit((len(xs) - 1.0) / ((len(xs) - 2) * (len(xs) - 3))) if False else
                                                      fdiv(flit(len(xs) - 1), flit((len(xs) - 2) * (len(xs) - 3))),
                                                      F.mk("add", fmul(flit(len(xs) + 1), fsub(fdiv(central(xs, 4), fpow(central(xs, 2), 2)), flit(3))), flit(6)))
    return d


def stream_definitions(ctx, db, est, k, defs, key="L0", arity=1, build_args=None, min_k=None, seed=31, given_pos=()):
    """feed k abstract observations through new()+add and compare every accessor in `defs` with
    its defining formula (exact identity over the reals)"""
    fn = est.add
    fsite = R.fn_site(db, fn)

    def setup(m):
        alg = Alg(m, est)
        obs = []
        for i in range(k):
            args = [F.atom("x%d" % i)] if arity == 1 else [F.atom("x%d" % i), F.atom(("w%d" if build_args == "weighted" else "y%d") % i)]
            for a in args:
                m.order.set_nan(a, False)
            if build_args == "weighted":
                m.order.assume("Gt", args[1], F.ZERO, True)
            obs.append(args)

        def thunk():
            s = alg.new("s")
            for a in obs:
                alg.add(s, *a)
            out = []
            for acc, f in defs.items():
                name, args = (acc, ()) if isinstance(acc, str) else (acc[0], (acc[1],))
                if est.m(name, None) is None:
                    continue
                mk = (min_k or {}).get(name, 1)
                if k < mk:
                    continue
                try:
                    got = alg.acc(s, name, *args)
                except PathEnd as e:
                    if e.status == "panic" and any(c[0] == "fcmp" and ((c[1] == "Eq" and c[4]) or (c[1] == "Ne" and not c[4])) for c in m.pc):
                        # the documented zero-variance assertion (a data equality holds on this path)
                        raise PathEnd("infeasible")
                    if e.status == "panic":
                        out.append(("%s%s" % (name, "(%d)" % args[0] if args else ""), ("panic", e.info.get("kind")), None))
                        continue
                    raise
                want = f([a[0] for a in obs] if arity == 1 else obs)
                out.append(("%s%s" % (name, "(%d)" % args[0] if args else ""), got, want))
            return out
        return thunk, {}
    paths, stats = explore(db, setup, Config(release=True), 600)
    ctx.count_run(Run(fn, paths, stats, key))
    n = 0
    for p in paths:
        pcs = pc_show(p.pc) or "unconditional"
        if p.status != "return":
            if p.status == "panic" and is_debug_only(p.info.get("span") or {}):
                continue
            ctx.ob("R-LAW", "%s:k=%d" % (key, k), fn, fsite, False, "stream of %d observations: %s %s" % (k, p.status, p.info.get("kind") or p.info.get("why")),
                   inc=p.status == "inconclusive")
            continue
        # a path that branched on data (e.g. sum_3 == 0) constrains the atoms: substitute equalities
        for lab, got, want in p.ret:
            n += 1
            k2 = "%s:%s:k=%d" % (key, lab, k)
            if isinstance(got, tuple) and got and got[0] == "panic":
                ctx.ob("R-LAW", k2, fn, fsite, False, "%s panics on a stream of %d observations (%s)" % (lab, k, got[1]))
                continue
            if p.pc and any(e[0] == "fcmp" and ((e[1] == "Eq" and e[4]) or (e[1] == "Ne" and not e[4])) for e in p.pc):
                # measure-zero branches (a data equality such as `third central sum == 0` holds) are
                # decided by R-SENTINEL/R-CONST; the generic branch is compared below
                continue
            if is_float(got) and F.is_lit(got) and F.is_nan_lit(got) and not (F.is_lit(want) and F.is_nan_lit(want)):
                acc_fn = est.m(lab.split("(")[0], None) or fn
                ctx.ob("R-LAW", k2, acc_fn, R.fn_site(db, acc_fn), False,
                       "after %d abstract observations %s returns the NaN sentinel on a path with no data equality [path: %s] although its definition is defined there" % (k, lab, pcs),
                       d7=False, sample={"accessor": lab, "k": k, "path_condition": pcs})
                continue
            try:
                ok, diff = pit.identical([(lab, got, want)], seed=seed, points=3, squares=False, integers=True)
            except pit.NeedSymbolic as e:
                ctx.ob("R-LAW", k2, fn, fsite, False, "%s: undecided (%s)" % (lab, e), inc=True)
                continue
            acc_fn = est.m(lab.split("(")[0], None) or fn
            ctx.ob("R-LAW", k2, acc_fn, R.fn_site(db, acc_fn), ok,
                   ("after %d abstract observations %s equals its definition over the reals" % (k, lab)) if ok else
                   "after %d abstract observations %s differs from its definition (at a rational sample point: %s vs %s)" % (k, lab, diff[2], diff[3]),
                   d7=True, sample={"accessor": lab, "k": k})
    return n


def moments_sample_laws(ctx, db, est):
    """C10 on an abstract state: sample_skewness and sample_excess_kurtosis in terms of the
    type's own central_moment accessors"""
    if not has(est, "central_moment"):
        return

    def b(alg, s):
        n = n_of(alg, s)
        cm = lambda p: alg.acc(s, "central_moment", p)
        out = []
        if has(est, "sample_skewness"):
            want = fmul(fdiv(F.fn("sqrt", fmul(n, fsub(n, F.ONE))), fsub(n, flit(2))), fdiv(cm(3), F.fn("powf", cm(2), flit(1.5))))
            out.append(("sample_skewness = sqrt(n(n-1))/(n-2) * m3/m2^1.5", alg.acc(s, "sample_skewness"), want))
        if has(est, "sample_excess_kurtosis"):
            want = fmul(fdiv(fsub(n, F.ONE), fmul(fsub(n, flit(2)), fsub(n, flit(3)))),
                        F.mk("add", fmul(F.mk("add", n, F.ONE), fsub(fdiv(cm(4), fmul(cm(2), cm(2))), flit(3))), flit(6)))
            out.append(("sample_excess_kurtosis = (n-1)/((n-2)(n-3)) * ((n+1)(m4/m2^2 - 3) + 6)", alg.acc(s, "sample_excess_kurtosis"), want))
        if has(est, "sample_variance"):
            out.append(("sample_variance*(n-1) = central_moment(2)*n", fmul(alg.acc(s, "sample_variance"), fsub(n, F.ONE)), fmul(cm(2), n)))
        return out
    eval_laws(ctx, db, est, 4, b, "L8:sample-statistics", est.m("sample_skewness", None) or est.add)


def cov_swap(ctx, db, est, k):
    """swapping the roles of x and y swaps the x/y statistics and leaves covariance and
    correlation unchanged (on abstract streams of k pairs)"""
    fn = est.add
    fsite = R.fn_site(db, fn)
    pairs_ = [("mean_x", "mean_y"), ("population_variance_x", "population_variance_y"), ("sample_variance_x", "sample_variance_y"),
              ("population_covariance", "population_covariance"), ("sample_covariance", "sample_covariance"), ("pearson", "pearson")]

    def setup(m):
        alg = Alg(m, est)
        obs = [(F.atom("x%d" % i), F.atom("y%d" % i)) for i in range(k)]
        for a, b in obs:
            m.order.set_nan(a, False)
            m.order.set_nan(b, False)

        def thunk():
            s1, s2 = alg.new("s1"), alg.new("s2")
            for a, b in obs:
                alg.add(s1, a, b)
                alg.add(s2, b, a)
            out = []
            for p, q in pairs_:
                if est.m(p, None) and est.m(q, None):
                    out.append(("%s <-> %s" % (p, q), alg.acc(s1, p), alg.acc(s2, q)))
            return out
        return thunk, {}
    paths, stats = explore(db, setup, Config(release=True), 300)
    ctx.count_run(Run(fn, paths, stats, "L6"))
    for p in paths:
        if p.status != "return":
            continue
        for lab, a, b in p.ret:
            try:
                ok, diff = pit.identical([(lab, a, b)], seed=41, points=3, squares=False, integers=True)
            except pit.NeedSymbolic as e:
                ctx.ob("R-LAW", "L6:" + lab, fn, fsite, False, str(e), inc=True)
                continue
            ctx.ob("R-LAW", "L6:swap:" + lab, fn, fsite, ok, "x<->y swap symmetry: %s %s" % (lab, "holds over the reals" if ok else "violated (%s vs %s)" % (diff[2], diff[3])), d7=True)
