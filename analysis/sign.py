"""D2 — sign domain over float residuals (sound for IEEE arithmetic up to NaN: a result classified
'nonneg' is >= 0 or NaN; sums/products/quotients of non-negatives never become negative).

Signs: 'zero', 'pos', 'neg', 'nonneg', 'nonpos', 'any'.
"""
from fractions import Fraction

import fnode as F
from lin import Lin

NEG = {"zero": "zero", "pos": "neg", "neg": "pos", "nonneg": "nonpos", "nonpos": "nonneg", "any": "any"}


def sign_of_number(v):
    if v != v:
        return "any"
    if v == 0:
        return "zero"
    return "pos" if v > 0 else "neg"


def add_sign(a, b):
    if a == "zero":
        return b
    if b == "zero":
        return a
    pos = {"pos", "nonneg"}
    neg = {"neg", "nonpos"}
    if a in pos and b in pos:
        return "pos" if "pos" in (a, b) else "nonneg"
    if a in neg and b in neg:
        return "neg" if "neg" in (a, b) else "nonpos"
    return "any"


def mul_sign(a, b):
    if a == "zero" or b == "zero":
        return "zero"
    if a == "any" or b == "any":
        return "any"
    strict = a in ("pos", "neg") and b in ("pos", "neg")
    sa = 1 if a in ("pos", "nonneg") else -1
    sb = 1 if b in ("pos", "nonneg") else -1
    s = sa * sb
    if strict:
        return "pos" if s > 0 else "neg"
    return "nonneg" if s > 0 else "nonpos"


def is_nonneg(s):
    return s in ("zero", "pos", "nonneg")


def is_pos(s):
    return s == "pos"


class SignEnv:
    """atom_sign: name -> sign; machine: for integer bounds and order facts"""

    def __init__(self, machine=None, atom_sign=None):
        self.m = machine
        self.atom_sign = atom_sign if atom_sign is not None else {}
        self.memo = {}

    def of(self, n):
        r = self.memo.get(n)
        if r is None:
            r = self._of(n)
            self.memo[n] = r
        return r

    def _from_order(self, n):
        m = self.m
        if m is None:
            return "any"
        o = m.order
        if n not in o.idx:
            return "any"
        if o.nan_status(n) is not False and not m.cfg.finite:
            pass
        if o.decide("Gt", n, F.ZERO) is True:
            return "pos"
        if o.decide("Lt", n, F.ZERO) is True:
            return "neg"
        if o.decide("Eq", n, F.ZERO) is True:
            return "zero"
        if o.decide("Ge", n, F.ZERO) is True:
            return "nonneg"
        if o.decide("Le", n, F.ZERO) is True:
            return "nonpos"
        return "any"

    def factors(self, n, exp, acc):
        """flatten a product/quotient into {node: exponent}"""
        k = n[0]
        if k == "mul":
            self.factors(n[1], exp, acc)
            self.factors(n[2], exp, acc)
        elif k == "div":
            self.factors(n[1], exp, acc)
            self.factors(n[2], -exp, acc)
        elif k == "neg":
            acc["__neg__"] = acc.get("__neg__", 0) + 1
            self.factors(n[1], exp, acc)
        elif k == "fn" and n[1] == "powi" and isinstance(n[3], int):
            self.factors(n[2], exp * n[3], acc)
        else:
            acc[n] = acc.get(n, 0) + exp

    def _of(self, n):
        k = n[0]
        if k == "lit":
            return sign_of_number(F.litval(n))
        if k == "i2f":
            if self.m is None:
                return "any"
            lo, hi = self.m.ienv.bounds(Lin.from_key(n[1]))
            if lo > 0:
                return "pos"
            if hi < 0:
                return "neg"
            if lo == hi == 0:
                return "zero"
            if lo >= 0:
                return "nonneg"
            if hi <= 0:
                return "nonpos"
            return "any"
        if k == "atom":
            s = self.atom_sign.get(n[1])
            o = self._from_order(n)
            if s is None:
                return o
            # combine the declared sign with the path's order facts (e.g. >= 0 and != 0)
            if o in ("pos", "neg", "zero"):
                return o
            if s == "nonneg" and self.m is not None and n in self.m.order.idx and self.m.order.decide("Ne", n, F.ZERO) is True \
                    and self.m.order.nan_status(n) is False:
                return "pos"
            return s
        if k == "neg":
            return NEG[self.of(n[1])]
        if k == "add":
            r = add_sign(self.of(n[1]), self.of(n[2]))
        elif k == "sub":
            r = add_sign(self.of(n[1]), NEG[self.of(n[2])])
            if r == "any" and self.m is not None:
                o = self.m.order
                if n[1] in o.idx and n[2] in o.idx:
                    if o.decide("Gt", n[1], n[2]) is True:
                        r = "pos"
                    elif o.decide("Lt", n[1], n[2]) is True:
                        r = "neg"
                    elif o.decide("Ge", n[1], n[2]) is True:
                        r = "nonneg"
                    elif o.decide("Le", n[1], n[2]) is True:
                        r = "nonpos"
        elif k in ("mul", "div"):
            acc = {}
            self.factors(n, 1, acc)
            negs = acc.pop("__neg__", 0)
            r = "pos"
            for node, e in acc.items():
                if e == 0:
                    continue
                s = self.of(node)
                if e % 2 == 0:
                    # even power: non-negative whatever the sign of the base
                    s = "zero" if s == "zero" else ("pos" if s in ("pos", "neg") else "nonneg")
                r = mul_sign(r, s)
            if negs % 2 == 1:
                r = NEG[r]
        elif k == "fn":
            name = n[1]
            if name == "sqrt":
                s = self.of(n[2])
                r = "zero" if s == "zero" else ("pos" if s == "pos" else "nonneg")
            elif name == "abs":
                s = self.of(n[2])
                r = "zero" if s == "zero" else ("pos" if s in ("pos", "neg") else "nonneg")
            elif name == "powi" and isinstance(n[3], int):
                s = self.of(n[2])
                if n[3] % 2 == 0:
                    r = "zero" if s == "zero" else ("pos" if s in ("pos", "neg") else "nonneg")
                else:
                    r = s
            elif name == "powf":
                s = self.of(n[2])
                r = s if s in ("pos", "zero", "nonneg") else "any"
            elif name in ("min", "max"):
                a, b = self.of(n[2]), self.of(n[3])
                if a == b:
                    r = a
                elif name == "max" and (is_nonneg(a) or is_nonneg(b)):
                    r = "pos" if "pos" in (a, b) else "nonneg"
                elif name == "min" and (a in ("neg", "nonpos", "zero") or b in ("neg", "nonpos", "zero")):
                    r = "neg" if "neg" in (a, b) else "nonpos"
                elif name == "min" and is_nonneg(a) and is_nonneg(b):
                    r = "nonneg"
                else:
                    r = "any"
            elif name in ("ceil", "floor", "signum"):
                s = self.of(n[2])
                if name == "signum":
                    r = s if s in ("pos", "neg") else "any"
                elif name == "ceil":
                    r = "pos" if s == "pos" else ("nonneg" if is_nonneg(s) else "any")
                else:
                    r = "neg" if s == "neg" else ("nonpos" if s in ("nonpos", "zero") else "any")
            else:
                r = "any"
        else:
            r = "any"
        if r in ("nonneg", "nonpos") and self.m is not None and n in self.m.order.idx:
            o = self._from_order(n)
            if o in ("pos", "neg", "zero"):
                return o
            if self.m.order.decide("Ne", n, F.ZERO) is True and (self.m.order.nan_status(n) is False or self.m.cfg.finite):
                return "pos" if r == "nonneg" else "neg"
        if r == "any":
            o = self._from_order(n)
            if o != "any":
                return o
            if self.m is not None and k in ("add", "sub", "i2f"):
                # interval view (e.g. f(n+1) - 1.0 with n >= 1)
                try:
                    from machine import float_bounds
                    lo, hi = float_bounds(self.m, n)
                    if lo > 0:
                        return "pos"
                    if hi < 0:
                        return "neg"
                    if lo >= 0:
                        return "nonneg"
                    if hi <= 0:
                        return "nonpos"
                except Exception:
                    pass
        return r
