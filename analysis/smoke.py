"""Smoke test: evaluate every fn body with fully abstract arguments; report statuses."""
import sys, glob, collections, time, traceback
sys.path.insert(0, '/verif/analysis')
from facts import DB, short_site
from machine import *
import summaries

def main():
    cfgname = sys.argv[1] if len(sys.argv) > 1 else 'B'
    pat = sys.argv[2] if len(sys.argv) > 2 else None
    import extract
    files,_ = extract.ensure_facts(cfgname)
    base = files['average'].rsplit('/',1)[0]
    db = DB({'average': base + '/average.json', 'avg_harness': base + '/avg_harness.json'})
    stat = collections.Counter()
    unm = collections.Counter()
    why = collections.Counter()
    t0 = time.time()
    for path, f in sorted(db.fns.items()):
        if pat and pat not in path: continue
        if f['def_kind'] not in ('Fn', 'AssocFn'): continue
        tr = f.get('impl_trait', '') or ''
        if 'Debug' in tr or 'serde' in tr or '_::' in path or 'Serialize' in path or 'Deserialize' in path: continue
        def setup(m, f=f):
            args = []
            for i in range(f['arg_count']):
                ty = f['locals'][i + 1]['ty']
                v = m.sym_value(ty, 'a%d' % i)
                if isinstance(v, VRef): v.cell.root = 'a%d' % i
                args.append(v)
            return (lambda: m.call_local(f, args, None)), {}
        cfg = Config(consts={'LEN': 3})
        t1=time.time()
        try:
            res, st = explore(db, setup, cfg, max_paths=400)
        except Exception as e:
            print('CRASH', path, repr(e)); traceback.print_exc(); stat['crash'] += 1; continue
        c = collections.Counter(r.status for r in res)
        for r in res:
            for n, sp in r.unmodelled: unm[n] += 1
            if r.status == 'inconclusive': why[(r.info.get('why'), path)] += 1
        stat.update(c)
        if time.time()-t1>1.0: print('SLOW %.1fs'%(time.time()-t1), path, dict(c), st, flush=True)
        if pat: 
            print(path, dict(c), st)
            for r in res[:40]:
                print('   ', r.status, r.ret if r.status=='return' else {k: (short_site(v) if k=='span' else v) for k,v in r.info.items() if k!='stack'})
    print(dict(stat), 'time %.1fs' % (time.time() - t0))
    print('UNMODELLED:')
    for k, v in unm.most_common(): print('  ', v, k)
    print('INCONCLUSIVE:')
    for k, v in sorted(why.items(), key=lambda x: -x[1])[:60]: print('  ', v, k)
main()
