"""D3 — physical dimension (scale homogeneity) of float residuals.

Every residual gets an exponent vector over the axes given by the caller (e.g. X, Y, W).  State
atoms carry unknowns (one per private field / array element, shared between `self` and `other`);
`+ - compare min max` require equal vectors, `* /` add/subtract them, `sqrt` halves, `powf`/`powi`
scale by a literal exponent.  Literals 0/NaN/inf are polymorphic; every other literal and every
count is dimensionless.  Constraints are linear over Q and solved incrementally; the first clashing
constraint is the report.
"""
from fractions import Fraction

import fnode as F

POLY = "poly"  # polymorphic zero / nan / inf


class Aff:
    """affine form: const + sum coeff * unknown (per axis handled by the solver)"""
    __slots__ = ("c", "t")

    def __init__(self, c, t=None):
        self.c = c          # tuple of Fractions (one per axis)
        self.t = t or {}    # unknown -> Fraction

    def add(self, o, k=1):
        t = dict(self.t)
        for u, v in o.t.items():
            nv = t.get(u, 0) + k * v
            if nv == 0:
                t.pop(u, None)
            else:
                t[u] = nv
        return Aff(tuple(a + k * b for a, b in zip(self.c, o.c)), t)

    def scale(self, k):
        k = Fraction(k)
        return Aff(tuple(a * k for a in self.c), {u: v * k for u, v in self.t.items() if v * k != 0})


class Clash(Exception):
    def __init__(self, what, lhs, rhs, node=None):
        self.what = what
        self.lhs = lhs
        self.rhs = rhs
        self.node = node


class DimSolver:
    def __init__(self, axes):
        self.axes = axes
        self.k = len(axes)
        # unknown u has one scalar unknown per axis: (u, axis)
        self.sol = {}      # (u, ax) -> (const Fraction, {(u', ax): Fraction})  solved form
        self.memo = {}
        self.atom_dim = {}  # atom name -> Aff (given) ; unknown atoms map via field_of
        self.field_of = lambda name: name
        self.constraints = 0

    def zero(self):
        return Aff(tuple(Fraction(0) for _ in self.axes))

    def unit(self, axis, e=1):
        return Aff(tuple(Fraction(e) if a == axis else Fraction(0) for a in self.axes))

    def unknown(self, name):
        return Aff(tuple(Fraction(0) for _ in self.axes), {name: Fraction(1)})

    def give(self, atom_name, aff):
        self.atom_dim[atom_name] = aff

    # ---- scalar linear algebra per axis
    def _resolve(self, aff, ax):
        """scalar affine form on axis ax with solved unknowns substituted: (const, {u: coef})"""
        c = aff.c[ax]
        t = {}
        for u, v in aff.t.items():
            s = self.sol.get((u, ax))
            if s is None:
                t[u] = t.get(u, 0) + v
            else:
                sc, st = s
                c += v * sc
                for u2, v2 in st.items():
                    t[u2] = t.get(u2, 0) + v * v2
        # substitute transitively
        changed = True
        while changed:
            changed = False
            for u in list(t):
                s = self.sol.get((u, ax))
                if s is not None:
                    v = t.pop(u)
                    sc, st = s
                    c += v * sc
                    for u2, v2 in st.items():
                        t[u2] = t.get(u2, 0) + v * v2
                    changed = True
        return c, {u: v for u, v in t.items() if v != 0}

    def equate(self, a, b, what="", node=None):
        """a == b ; raises Clash when inconsistent"""
        self.constraints += 1
        d = a.add(b, -1)
        for ax in range(self.k):
            c, t = self._resolve(d, ax)
            if not t:
                if c != 0:
                    raise Clash(what, self.show(a), self.show(b), node)
                continue
            # solve for one unknown
            u = sorted(t)[0]
            v = t.pop(u)
            self.sol[(u, ax)] = (-c / v, {u2: -v2 / v for u2, v2 in t.items()})

    def value(self, aff):
        """per-axis (const, residual unknowns) after substitution"""
        return [self._resolve(aff, ax) for ax in range(self.k)]

    def show(self, aff):
        if aff is POLY:
            return "any"
        parts = []
        for ax, name in enumerate(self.axes):
            c, t = self._resolve(aff, ax)
            s = ""
            if t:
                s = "+".join("%s*%s" % (v, u) if v != 1 else u for u, v in sorted(t.items()))
                if c != 0:
                    s += "%+s" % c
                parts.append("%s^(%s)" % (name, s))
            elif c != 0:
                parts.append("%s^%s" % (name, c))
        return " ".join(parts) if parts else "1"

    # ---- residual traversal
    def dim(self, n):
        r = self.memo.get(n)
        if r is None:
            r = self._dim(n)
            self.memo[n] = r
        return r

    def same(self, a, b, what, node):
        """both operands must agree; polymorphic literals adopt the other side"""
        if a is POLY:
            return b
        if b is POLY:
            return a
        self.equate(a, b, what, node)
        return a

    def _dim(self, n):
        k = n[0]
        if k == "lit":
            v = F.litval(n)
            if v == 0 or v != v or v in (float("inf"), float("-inf")):
                return POLY
            return self.zero()
        if k == "i2f":
            return self.zero()
        if k == "atom":
            nm = n[1]
            if nm in self.atom_dim:
                return self.atom_dim[nm]
            return self.unknown(self.field_of(nm))
        if k == "opq":
            return self.unknown("opq:" + str(n[1]))
        if k == "neg":
            return self.dim(n[1])
        if k in ("add", "sub"):
            return self.same(self.dim(n[1]), self.dim(n[2]), "operands of %s" % ("+" if k == "add" else "-"), n)
        if k in ("mul", "div"):
            a, b = self.dim(n[1]), self.dim(n[2])
            if a is POLY and k == "mul":
                return POLY
            if b is POLY and k == "mul":
                return POLY
            if a is POLY:
                return POLY
            if b is POLY:
                return POLY
            return a.add(b, 1 if k == "mul" else -1)
        if k == "fn":
            name = n[1]
            if name == "sqrt":
                a = self.dim(n[2])
                return POLY if a is POLY else a.scale(Fraction(1, 2))
            if name in ("abs", "ceil", "floor"):
                a = self.dim(n[2])
                if name in ("ceil", "floor") and a is not POLY:
                    self.equate(a, self.zero(), "argument of %s must be dimensionless" % name, n)
                return a
            if name == "signum":
                return self.zero()
            if name == "powi":
                a = self.dim(n[2])
                return POLY if a is POLY else a.scale(n[3])
            if name == "powf":
                a = self.dim(n[2])
                e = n[3]
                if F.is_lit(e):
                    return POLY if a is POLY else a.scale(Fraction(F.litval(e)).limit_denominator(64))
                if a is not POLY:
                    self.equate(a, self.zero(), "base of powf with a non-literal exponent must be dimensionless", n)
                return self.zero()
            if name in ("min", "max"):
                return self.same(self.dim(n[2]), self.dim(n[3]), "operands of %s" % name, n)
            if name == "sorted":
                ds = [self.dim(x) for x in n[4:]]
                r = POLY
                for d in ds:
                    r = self.same(r, d, "elements of a sorted slice", n)
                return r
            return self.unknown("fn:" + name)
        return self.unknown("?")

    def compare(self, a, b, what, node=None):
        self.same(self.dim(a), self.dim(b), what, node)

    def require(self, n, aff, what):
        d = self.dim(n)
        if d is POLY:
            return
        self.equate(d, aff, what, n)
