"""Fact database: merged view of the fact files of `average` and `avg_harness` for one cfg."""
import json
import re


class DB:
    def __init__(self, files, cfg=None):
        self.cfg = cfg
        self.fns = {}
        self.adts = {}
        self.impls = []
        self.traits = {}
        self.statics = []
        self.consts = {}
        self.crates = {}
        self.fn_crate = {}
        for crate, path in files.items():
            with open(path) as fh:
                text = fh.read()
            # items of `average` referenced from the harness crate carry a crate prefix; the
            # database uses crate-relative paths of `average` everywhere.
            text = text.replace("average::", "")
            d = json.loads(text)
            self.crates[crate] = {
                "cfg": d["cfg"],
                "unsafe_code_lint": d["unsafe_code_lint"],
                "n_fns": len(d["fns"]),
                "n_adts": len(d["adts"]),
                "n_impls": len(d["impls"]),
            }
            for f in d["fns"]:
                self.fns[f["path"]] = f
                self.fn_crate[f["path"]] = crate
            ast = {x["path"]: x for x in d.get("ast_attrs", [])}
            for a in d["adts"]:
                a["crate"] = crate
                x = ast.get(a["path"])
                a["ast_seen"] = x is not None
                a["ast_attrs"] = x["attrs"] if x else []
                fa = {f["name"]: f["attrs"] for f in x["fields"]} if x else {}
                for v in a["variants"]:
                    for f in v["fields"]:
                        f["ast_attrs"] = fa.get(f["name"], [])
                self.adts[a["path"]] = a
            for i in d["impls"]:
                i["crate"] = crate
                self.impls.append(i)
            for t in d["traits"]:
                t["crate"] = crate
                self.traits[t["path"]] = t
            for s in d["statics"]:
                s["crate"] = crate
                self.statics.append(s)
            for c in d["consts"]:
                self.consts[c["path"]] = c
        self._canon = {}
        # impl lookup: (trait, self adt path) -> impl
        self.impl_of = {}
        for i in self.impls:
            st = i["self_ty"]
            key_ty = st.get("path") if st["k"] == "adt" else st["s"]
            if st["k"] == "ref" and st["to"]["k"] == "adt":
                key_ty = "&" + st["to"]["path"]
            self.impl_of.setdefault((i.get("trait"), key_ty), []).append(i)

    def canon(self, path):
        """Anchors are public API names; the crate-internal module path in front of them is not part
        of the API.  A path that is not found is resolved to the unique type/trait of `average`
        with the same final name (so moving `Mean` to another private module changes nothing)."""
        if path is None or path in self.adts or path in self.traits:
            return path
        c = self._canon.get(path)
        if c is None:
            name = path.split("::")[-1]
            cands = [p for p in list(self.adts) + list(self.traits)
                     if p.split("::")[-1] == name and self._crate_of(p) == "average" and "{" not in p]
            c = cands[0] if len(cands) == 1 else path
            self._canon[path] = c
        return c

    def _crate_of(self, p):
        a = self.adts.get(p)
        if a is not None:
            return a.get("crate")
        t = self.traits.get(p)
        if t is not None:
            return t.get("crate", "average")
        return None

    def features(self, crate="average"):
        out = set()
        for c in self.crates[crate]["cfg"]:
            m = re.match(r'feature="(.*)"', c)
            if m:
                out.add(m.group(1))
        return out

    def find_impl_method(self, trait, adt_path, name):
        trait = self.canon(trait)
        if adt_path.startswith("&"):
            adt_path = "&" + self.canon(adt_path[1:])
        else:
            adt_path = self.canon(adt_path)
        for i in self.impl_of.get((trait, adt_path), []):
            for it in i["items"]:
                if it["name"] == name:
                    return it["path"]
        return None

    def inherent_method(self, adt_path, name):
        for i in self.impl_of.get((None, adt_path), []):
            for it in i["items"]:
                if it["name"] == name:
                    return it["path"]
        return None

    def methods_of(self, adt_path):
        adt_path = self.canon(adt_path)
        out = {}
        for (tr, ty), impls in self.impl_of.items():
            if ty != adt_path:
                continue
            for i in impls:
                for it in i["items"]:
                    out[(tr, it["name"])] = it["path"]
        return out

    def impls_for(self, adt_path):
        return [i for (tr, ty), impls in self.impl_of.items() if ty == adt_path for i in impls]


def short_site(span):
    if not span:
        return "?"
    s = span.get("sp", "?")
    s = re.sub(r"^/repo/|^.*/harness-build/", "", s)
    return s


def site_key(span):
    """line-free identification of a site's file (used for reports only)"""
    return short_site(span).split(":")[0]
