#!/usr/bin/env python3
"""./check <property-id> [--tier quick|thorough] [--replay <file>]

Decides one property of vks/average by static analysis of /repo's current source (nothing in
/repo is executed).  Exit 0: every armed rule instance holds; exit 1 + `VIOLATION property=<id>
replay=<path>`: a rule instance is broken by a specific construct.  See DESIGN.md.
"""
import json
import re
import os
import sys
import time
import traceback

HERE = os.path.dirname(os.path.abspath(__file__))
sys.path.insert(0, HERE)
VERIF = os.path.dirname(HERE)

import extract  # noqa: E402
from facts import DB  # noqa: E402


class Ob:
    __slots__ = ("rule", "key", "fn", "site", "status", "detail", "d7", "nontrivial", "sample")

    def __init__(self, rule, key, fn, site, status, detail="", d7=False, nontrivial=True, sample=None):
        self.rule = rule
        self.key = key
        self.fn = fn
        self.site = site
        self.status = status  # ok | viol | inc
        self.detail = detail
        self.d7 = d7
        self.nontrivial = nontrivial
        self.sample = sample

    def ident(self):
        return "%s|%s|%s" % (self.rule, self.fn, self.key)


class Ctx:
    def __init__(self, pid, tier, seed):
        self.pid = pid
        self.tier = tier
        self.seed = seed
        self.obs = []
        self.dbs = {}
        self.tree_key = None
        self.trusted = set()
        self.assumptions = []
        self.notes = []
        self.stats = {"paths": 0, "runs": 0, "entries": 0}
        self.unmodelled = {}
        self.floors = []
        self.extra = {}
        self.cfg_map = {}     # R-CFG re-runs: the default configuration is replaced by a variant
        self.variant = None

    def db(self, cfg):
        cfg = self.cfg_map.get(cfg, cfg)
        if cfg not in self.dbs:
            files, key = extract.ensure_facts(cfg)
            self.tree_key = key
            self.dbs[cfg] = DB(files, cfg)
        return self.dbs[cfg]

    def cfg_sensitive(self):
        """R-CFG: functions of `average` whose MIR body under another feature configuration (D = std,
        A = serde+rayon+nightly+libm, C = no features) differs from the body under the default
        configuration B, up to the names of the float intrinsics the features select.  Returns
        {cfg: {source file: [fn paths]}}."""
        import hashlib
        import re
        fl = re.compile(r"^(?:<f64 as )?(?:num_traits::float::Float(?:Core)?|std::f64::<impl f64>|core::f64::<impl f64>|core::f64::math)>?::(\w+)$")

        def strip(o):
            if isinstance(o, dict):
                if o.get("k") == "fndef" and isinstance(o.get("path"), str) and fl.match(o["path"]):
                    return {"k": "fndef", "path": "float::" + fl.match(o["path"]).group(1)}
                out = {}
                for k, v in o.items():
                    if k in ("span", "sp", "mx", "s", "full", "resolved", "resolved_local", "resolved_targs", "local", "trait", "name"):
                        continue
                    if k == "fn" and isinstance(v, str) and fl.match(v):
                        v = "float::" + fl.match(v).group(1)
                    if k == "targs" and isinstance(o.get("fn"), str) and fl.match(o["fn"]):
                        continue
                    out[k] = strip(v)
                return out
            if isinstance(o, list):
                return [strip(x) for x in o]
            return o

        def digest(db):
            h = {}
            for p, f in db.fns.items():
                if db.fn_crate.get(p) != "average":
                    continue
                body = {k: f[k] for k in ("blocks", "locals", "arg_count") if k in f}
                h[p] = (hashlib.sha1(json.dumps(strip(body), sort_keys=True, default=str).encode()).hexdigest(),
                        (f.get("span") or {}).get("sp", "?"))
            return h
        saved = self.cfg_map
        self.cfg_map = {}
        try:
            base = digest(self.db("B"))
            out = {}
            for cfg in ("D", "A", "C"):
                other = digest(self.db(cfg))
                for p in sorted(set(base) & set(other)):
                    if base[p][0] != other[p][0]:
                        m = re.search(r"(src/[\w/]+\.rs)", base[p][1])
                        out.setdefault(cfg, {}).setdefault(m.group(1) if m else "?", []).append(p)
        finally:
            self.cfg_map = saved
        return out

    def ob(self, rule, key, fn, site, ok, detail="", d7=False, nontrivial=True, sample=None, inc=False):
        if self.variant:
            key = "%s@cfg-%s" % (key, self.variant)
        st = "inc" if inc else ("ok" if ok else "viol")
        if st == "viol" and ("<opaque ret:" in detail or "<opaque havoc:" in detail or "?ret:" in detail or "?havoc:" in detail
                             or re.search(r"\?[A-Za-z_]+~\d|\bopq_[A-Za-z_0-9]+", detail)):
            # the differing value is the result of a call the library model does not cover: undecided, not wrong
            st = "inc"
        o = Ob(rule, key, fn, site, st, detail, d7, nontrivial, sample)
        self.obs.append(o)
        return o

    def count_run(self, run):
        self.stats["entries"] += 1
        self.stats["runs"] += run.stats["runs"]
        self.stats["paths"] += len(run.paths)
        for p in run.paths:
            for n, sp in p.unmodelled:
                self.unmodelled[n] = self.unmodelled.get(n, 0) + 1
            if p.status == "panic":
                self._debug_assert(run, p)
            for nt in getattr(p.machine, "notes", []) if p.machine is not None else []:
                if nt and nt[0] == "sort-order-witness":
                    from scen import site
                    self.ob("R-SORTED", "sort-order:%s" % site(nt[1]).split(":")[0], nt[3] or "?", site(nt[1]), False,
                            "the slice is sorted by an order that is not the numeric one: %s — after the sort the values are not in "
                            "non-decreasing order for such inputs" % nt[2])
                if nt and nt[0] == "as-cast-truncation":
                    from scen import site, show_val
                    self.ob("R-COUNT", "as-cast:%s:%s" % (nt[2], site(nt[1]).split(":")[0]), nt[4] or "?", site(nt[1]), False,
                            "`as %s` truncates %s, which is not bounded by the range of %s (sample counts are u64: a count of 2^32 is reached by "
                            "32 doubling merges): beyond it the statistic is computed from a wrapped value" % (nt[2], show_val(nt[3])[:60], nt[2]))

    def _debug_assert(self, run, p):
        """R-DASSERT: a path that ends in the panic of a debug_assert*! (the rules skip such paths: the
        release build goes on).  It is a violation when the path is realisable — every undecided
        comparison on it relates plain values (entry fields, parameters, items, sorted copies, counts),
        for which every order type consistent with the recorded facts exists — and INCONCLUSIVE when it
        was reached through a comparison of computed quantities or of fields of an abstract entry
        state (reachable states satisfy invariants the abstract state does not carry, e.g.
        sum_2 = 0 implies sum_4 = 0)."""
        from scen import is_debug_only, site, pc_show
        import fnode as F
        info = p.info or {}
        sp = info.get("span") or {}
        if not is_debug_only(sp):
            return

        def free(x):
            """a value no invariant of a reachable state constrains: a literal, an observation /
            parameter / iterator item (atom without a field path), or a sorted copy of such"""
            if not isinstance(x, tuple):
                return True
            if x[0] == "lit":
                return True
            if x[0] == "atom":
                return "." not in x[1] and "[" not in x[1]
            if x[0] == "fn" and x[1] == "sorted":
                return all(free(y) for y in x[4:])
            return False
        real = True
        for e in p.pc:
            if e[0] == "fcmp" and not (free(e[2]) and free(e[3])):
                real = False
            elif e[0] == "isnan" and not free(e[1]):
                real = False
            elif e[0] in ("icmp", "ovf"):
                real = False   # integer state (counts, positions) is tied to the data by invariants
        if p.inconclusive is not None:
            real = False
        fn = info.get("fn") or (run.fn if hasattr(run, "fn") else "?")
        if not real:
            frag = self._fragile(p)
            if frag:
                self.ob("R-DASSERT", "fragile:%s" % (site(sp).split(":")[0],), fn, site(sp), False,
                        "the debug_assert at %s compares computed floating-point quantities that are EQUAL over the reals when %s; "
                        "both sides are rounded, so the assertion can fail by one ulp for such inputs and a debug build panics "
                        "[asserted: %s]" % (site(sp), frag[0], frag[1][:200]))
                return
            # counted in the evidence only: on the pinned tree the crate's own invariant assertions
            # (`debug_assert_ne!(sum_2, 0.)` after `sum_3 != 0`, `n[4] >= 0`) end up here
            d = self.extra.setdefault("debug_assert_paths_not_decided", {})
            k = "%s @ %s" % (fn, site(sp))
            d[k] = d.get(k, 0) + 1
            return
        self.ob("R-DASSERT", "debug-assert:%s" % (site(sp).split(":")[0],), fn, site(sp), False,
                "a debug build panics in a debug_assert at %s [path: %s]" % (site(sp), (pc_show(p.pc) or "unconditional")[:300]))

    def _fragile(self, p):
        """the failing comparison of a debug assertion whose two sides coincide over the reals on a
        plainly reachable configuration (the two operands of a merge have equal values of a field, e.g.
        equal chunk means) and of which at least one side is computed with rounding: returns
        (configuration, comparison) or None"""
        import fnode as F
        last = None
        for e in p.pc:
            if e[0] == "fcmp":
                last = e
        if last is None:
            return None
        _, op, a, b, t, _sp = last
        if op in ("Eq", "Ne"):
            return None

        def rounds(x):
            return isinstance(x, tuple) and any(y[0] in ("add", "sub", "mul", "div") for y in self._nodes(x))
        if not (rounds(a) or rounds(b)):
            return None
        groups = {}
        for nm in sorted(F.atoms(a) | F.atoms(b)):
            if nm.startswith("int:") or nm.startswith("opq:") or "." not in nm:
                continue
            import re as _re
            # the same field of the two operands (A.avg / B.avg), or neighbouring elements of one array
            # field (q[1] / q[2]: tied marker heights)
            groups.setdefault(_re.sub(r"\[\d+\]", "[]", nm.split(".", 1)[1]), []).append(nm)
        sub, desc = {}, []
        for fld, names in groups.items():
            if len(names) >= 2:
                for other in names[1:]:
                    sub[F.atom(other)] = F.atom(names[0])
                desc.append("%s = %s" % (" = ".join(names), "(equal `%s`)" % fld))
        if not sub:
            return None
        try:
            import pit
            import rules as R
            a2, b2 = F.subst(a, sub), F.subst(b, sub)
            ok, _ = pit.identical([("assert", a2, b2)], seed=5, points=3, int_bounds=R._pit_bounds(p.machine), squares=False)
        except Exception:
            return None
        if not ok:
            return None
        return ", ".join(desc), "%s %s %s" % (F.show(a)[:90], op if t else "not " + op, F.show(b)[:90])

    @staticmethod
    def _nodes(x):
        seen, st = set(), [x]
        while st:
            y = st.pop()
            if not isinstance(y, tuple) or id(y) in seen:
                continue
            seen.add(id(y))
            yield y
            if y[0] in ("add", "sub", "mul", "div", "neg"):
                st.extend(y[1:])
            elif y[0] == "fn":
                st.extend(z for z in y[2:] if isinstance(z, tuple))

    def floor(self, what, measured, minimum):
        if self.variant:
            what = "%s [cfg %s]" % (what, self.variant)
        self.floors.append({"what": what, "measured": measured, "floor": minimum, "ok": measured >= minimum})
        if measured < minimum and not getattr(self, "relaxed_floors", False):
            self.ob("FLOOR", what, "-", "-", False,
                    "instance floor missed: %s = %d < %d (an anchored public API is gone or no longer analysable)" % (what, measured, minimum))

    def trust(self, *names):
        self.trusted.update(names)

    def assume(self, text):
        if text not in self.assumptions:
            self.assumptions.append(text)


def debug_region_effects(db, files):
    """R-DASSERT (purity): the blocks that only a debug build executes — reachable from the true edge
    of an `if cfg!(debug_assertions)` of debug_assert*! but not from its false edge — must not
    take a mutable borrow, write through a reference or pass `&mut` to a call: a release build would
    skip the effect (e.g. a counter incremented inside the asserted expression).
    Returns [(fn path, site, what)] for functions defined in `files`."""
    import re
    out = []
    for p, f in db.fns.items():
        if db.fn_crate.get(p) != "average":
            continue
        sp = (f.get("span") or {}).get("sp", "")
        m = re.search(r"(src/[\w/]+\.rs)", sp)
        if files is not None and (not m or m.group(1) not in files):
            continue
        blocks = f["blocks"]

        def succ(i):
            t = blocks[i]["term"]
            k = t.get("k")
            s = []
            if k == "switch":
                s = [x[1] for x in t["targets"]] + [t["otherwise"]]
            elif k in ("goto", "assert", "drop", "call", "falseedge", "falseunwind"):
                if t.get("target") is not None:
                    s = [t["target"]]
            return [x for x in s if isinstance(x, int)]

        def reach(i, stop=None):
            seen, st = set(), [i]
            while st:
                x = st.pop()
                if x in seen or x >= len(blocks) or x == stop:
                    continue
                seen.add(x)
                st.extend(succ(x))
            return seen
        for i, b in enumerate(blocks):
            t = b["term"]
            if t.get("k") != "switch":
                continue
            mx = (t.get("span") or {}).get("mx") or []
            if not (any(x.startswith("macro:debug_assert") for x in mx) and any("cfg" in x for x in mx)):
                continue
            if not t["targets"] or not isinstance(t["otherwise"], int):
                continue
            # inside a loop the release edge reaches the assertion again through the back edge: stop at the test itself
            region = reach(t["otherwise"], i) - reach(t["targets"][0][1], i)
            for j in sorted(region):
                for s in blocks[j]["stmts"]:
                    if s.get("k") != "assign":
                        continue
                    rv = s["rv"]
                    if rv.get("k") == "ref" and rv.get("mut"):
                        out.append((p, (s.get("span") or {}), "takes a mutable borrow"))
                    pl = s.get("place") or {}
                    if any(x == "deref" for x in pl.get("p", []) if isinstance(x, str)):
                        out.append((p, (s.get("span") or {}), "writes through a reference"))
                tt = blocks[j]["term"]
                if tt.get("k") == "call":
                    for ty in tt.get("argtys") or []:
                        if ty.get("k") == "ref" and ty.get("mut"):
                            out.append((p, (tt.get("span") or tt.get("fn_span") or {}), "passes a mutable reference to a call"))
    return out


def property_anchor_files(pid):
    with open(os.path.join(VERIF, "properties.jsonl")) as fh:
        for line in fh:
            p = json.loads(line)
            if p["id"] == pid:
                return p.get("anchors", {}).get("files", [])
    return []


def _fn_key(fn):
    """a finding is tied to the type and method, not to the (private) module the type lives in"""
    import re
    return re.sub(r"\b(?:[a-z_][a-z0-9_]*::)+(?=[A-Z])", "", fn or "")


def load_known():
    p = os.path.join(VERIF, "known_findings.json")
    if not os.path.exists(p):
        return []
    with open(p) as fh:
        return json.load(fh).get("findings", [])


def main(argv):
    if len(argv) < 2:
        print(__doc__)
        return 2
    pid = argv[1]
    tier = os.environ.get("VERIF_TIER", "quick")
    seed = int(os.environ.get("VERIF_SEED", "0") or 0)
    replay = None
    i = 2
    while i < len(argv):
        if argv[i] == "--tier":
            tier = argv[i + 1]
            i += 2
        elif argv[i] == "--replay":
            replay = argv[i + 1]
            i += 2
        else:
            i += 1
    if tier not in ("quick", "thorough"):
        tier = "quick"
    t0 = time.time()
    import props
    if pid not in props.PROPS:
        print("unknown property", pid)
        return 2
    spec = props.PROPS[pid]
    ctx = Ctx(pid, tier, seed)
    fatal = None
    try:
        spec["run"](ctx)
    except extract.ExtractError as e:
        fatal = "extraction failed: %s" % e
    except Exception as e:
        fatal = "analysis crashed: %r\n%s" % (e, traceback.format_exc())
    if not fatal:
        try:
            from scen import site as _site
            eff = debug_region_effects(ctx.db("B"), set(property_anchor_files(pid)))
            for fnp, sp, what in eff:
                ctx.ob("R-DASSERT", "pure:%s" % fnp, fnp, _site(sp), False,
                       "the expression of a debug_assert %s at %s: release builds skip that effect, so the two build profiles compute different states" % (what, _site(sp)))
            if not eff:
                ctx.ob("R-DASSERT", "pure", "-", "-", True, "no debug_assert expression of the anchored files takes a mutable borrow, writes through a reference or passes &mut to a call", nontrivial=False)
        except Exception as e:
            fatal = "analysis crashed: %r\n%s" % (e, traceback.format_exc())
    if not fatal:
        # R-CFG: bodies that depend on a cargo feature are analysed under that feature as well
        try:
            sens = ctx.cfg_sensitive()
            anchors = set(property_anchor_files(pid))
            ctx.extra["cfg_sensitive_functions"] = sens
            for cfg, files in sorted(sens.items()):
                hit = sorted(f for f in files if f in anchors)
                if not hit:
                    continue
                ctx.notes.append("R-CFG: %s differ(s) under cfg %s in %s: property re-analysed with cfg %s in place of the default" % (
                    sorted(p for f in hit for p in files[f])[:6], cfg, hit, cfg))
                ctx.cfg_map, ctx.variant = {"B": cfg}, cfg
                ctx.relaxed_floors = cfg == "C"
                try:
                    spec["run"](ctx)
                finally:
                    ctx.cfg_map, ctx.variant, ctx.relaxed_floors = {}, None, False
        except extract.ExtractError as e:
            fatal = "extraction failed: %s" % e
        except Exception as e:
            fatal = "analysis crashed: %r\n%s" % (e, traceback.format_exc())
    if fatal:
        # fail closed, like every other floor: the rule instances this property is anchored in were
        # not (all) generated, so the current tree is not shown to satisfy it
        ctx.ob("FLOOR", "analysis completed", "-", "-", False,
               "instance floor missed: the analysis of this tree did not complete (%s); the anchored constructs "
               "could not be analysed, so the property is not established" % fatal.splitlines()[0][:300])

    # obligations none of whose instances could be decided (an idiom outside the analysed fragment
    # reached the obligated value) are listed in the evidence; they do not fail the check by
    # themselves — the instance floors on counted anchors do (DESIGN 0.4)
    by_ident = {}
    for o in ctx.obs:
        by_ident.setdefault(o.ident(), []).append(o)
    ctx.extra["undecided_obligations"] = sorted(i for i, os_ in by_ident.items() if all(o.status == "inc" for o in os_))

    known = [k for k in load_known() if k.get("property") == pid and k.get("status") == "open"]
    viol = [o for o in ctx.obs if o.status == "viol"]
    inc = [o for o in ctx.obs if o.status == "inc"]
    okc = [o for o in ctx.obs if o.status == "ok"]
    known_hit, new_viol = [], []
    for o in viol:
        hit = None
        for k in known:
            # the same construct seen again in the re-analysis under another feature configuration (R-CFG) is the same finding
            if k["rule"] == o.rule and _fn_key(k["fn"]) == _fn_key(o.fn) and k["key"] == re.sub(r"@cfg-[A-Z]$", "", o.key):
                hit = k
        (known_hit if hit else new_viol).append((o, hit))

    ev_dir = os.environ.get("VERIF_EVIDENCE_DIR") or os.path.join(VERIF, "evidence")
    os.makedirs(os.path.join(ev_dir, "violations"), exist_ok=True)
    # clear stale violation files of this property
    for f in os.listdir(os.path.join(ev_dir, "violations")):
        if f.startswith(pid + "-"):
            os.remove(os.path.join(ev_dir, "violations", f))
    lines = []
    groups = {}
    for o, _ in new_viol:
        groups.setdefault(o.ident(), []).append(o)
    for n, (ident, os_) in enumerate(sorted(groups.items())):
        o = os_[0]
        vp = os.path.join(ev_dir, "violations", "%s-%d.json" % (pid, n))
        with open(vp, "w") as fh:
            json.dump({"property": pid, "rule": o.rule, "key": o.key, "fn": o.fn, "site": o.site,
                       "detail": o.detail, "sample": o.sample, "tier": tier, "instances": len(os_),
                       "other_instances": [x.detail[:300] for x in os_[1:6]],
                       "replay_cmd": "./check %s --tier %s" % (pid, tier)}, fh, indent=1, default=str)
        if n < 40:
            lines.append("VIOLATION property=%s replay=%s" % (pid, vp))
            print("  [%s] %s at %s in %s: %s%s" % (o.rule, o.key, o.site, o.fn, o.detail[:700],
                                                  (" (+%d more instances)" % (len(os_) - 1)) if len(os_) > 1 else ""))
    printed = set()
    for o, k in known_hit:
        if id(k) in printed:      # one line per listed finding, however many instances (n = 2, 3, 4 ...) show it
            continue
        printed.add(id(k))
        print("KNOWN-FINDING: property=%s %s [%s %s in %s]" % (pid, k.get("what", o.detail), o.rule, o.key, o.fn))
    seen_inc = set()
    for o in inc:
        if o.ident() in seen_inc or len(seen_inc) >= 25:
            continue
        seen_inc.add(o.ident())
        print("INCONCLUSIVE: property=%s [%s] %s at %s in %s: %s" % (pid, o.rule, o.key, o.site, o.fn, o.detail[:500]))
    if fatal:
        print("INCONCLUSIVE: property=%s reason=%s" % (pid, fatal.splitlines()[0]))
        sys.stderr.write(fatal + "\n")

    # evidence
    per_rule = {}
    for o in ctx.obs:
        r = per_rule.setdefault(o.rule, {"instances": 0, "ok": 0, "violations": 0, "inconclusive": 0, "needs_d7": 0})
        r["instances"] += 1
        r[{"ok": "ok", "viol": "violations", "inc": "inconclusive"}[o.status]] += 1
        if o.d7:
            r["needs_d7"] += 1
    samples = []
    seen_rules = set()
    rot = ctx.obs[seed % max(1, len(ctx.obs)):] + ctx.obs[:seed % max(1, len(ctx.obs))]
    for o in rot:
        if o.rule in seen_rules and len(samples) >= 6:
            continue
        if len(samples) >= 14:
            break
        seen_rules.add(o.rule)
        samples.append({"rule": o.rule, "fn": o.fn, "site": o.site, "key": o.key, "verdict": o.status,
                        "detail": o.detail[:400], "value": o.sample})
    distinct_nontrivial = len({o.ident() for o in ctx.obs if o.nontrivial})
    level = spec["level"]
    coverage = {
        "obligations": len(ctx.obs),
        "discharged": len(okc),   # an open known finding is not discharged
        "checker_cmd": "./check %s --tier %s" % (pid, tier),
        "trusted_base": sorted(ctx.trusted) + ["rustc name resolution, type check, const evaluation and MIR construction",
                                                "library summaries of analysis/summaries.py (DESIGN §3.4)"],
        "explanation": spec["explanation"],
        "evaluations": max(1, ctx.stats["paths"]),
        "distinct_nontrivial": distinct_nontrivial,
        "rule": "obligations are rule instances generated from the resolved program (MIR facts of /repo + harness); "
                "non-trivial = discharged using at least one abstract fact (not a literal comparison); distinct by rule|function|construct key",
        "samples": samples,
        "per_rule": per_rule,
        "paths_evaluated": ctx.stats["paths"],
        "evaluator_runs": ctx.stats["runs"],
        "entry_evaluations": ctx.stats["entries"],
        "cfgs": {c: d.crates for c, d in ctx.dbs.items()},
        "tree_sha256": ctx.tree_key,
        "unmodelled_calls": ctx.unmodelled,
        "floors": ctx.floors,
        "inconclusive": [{"rule": o.rule, "key": o.key, "fn": o.fn, "detail": o.detail[:300]} for o in inc],
        "known_findings_matched": [o.ident() for o, _ in known_hit],
        "notes": ctx.notes,
        "exhaustive": False,
    }
    coverage.update(ctx.extra)
    ev = {
        "property_id": pid, "tier": tier, "seed": seed, "level": level, "coverage": coverage,
        "assumptions": ctx.assumptions, "wall_s": round(time.time() - t0, 2), "violations": len(new_viol),
    }
    if fatal:
        ev["coverage"]["fatal"] = fatal.splitlines()[0]
    with open(os.path.join(ev_dir, "%s.json" % pid), "w") as fh:
        json.dump(ev, fh, indent=1, default=str)
    print("%s: %d obligations, %d ok, %d violations (%d known), %d inconclusive, %d paths, %.1fs [%s]" % (
        pid, len(ctx.obs), len(okc), len(viol), len(known_hit), len(inc), ctx.stats["paths"], time.time() - t0, tier))
    for ln in lines:
        print(ln)
    if new_viol:
        return 1
    return 0


if __name__ == "__main__":
    sys.exit(main(sys.argv))
