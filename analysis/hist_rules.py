"""Rules for histograms (C06, C12, C13): both the macro-generated sibling (define_histogram!) at
several LEN and the const-generic sibling (histogram_const, cfg A)."""
import fnode as F
from lin import Lin, simp, INF
from machine import (Machine, Config, Cell, VStruct, VTuple, VArray, VRef, VOpaque, VModel, deep, explore,
                     is_float, is_int, is_cond, PathEnd, Unsupported, SYM_HI)
from scen import (Est, Run, Alg, leaves, leaf_map, show_val, call, run_entry, site, is_debug_only, pc_show,
                  pc_equalities, changed_leaves, init_leaves, final_leaves)
import rules as R
import pit


def hist_roles(m, est):
    """(edges field name, bins field name) from the struct definition: the f64 array and the u64 array"""
    a = m.db.adts[est.path]
    rng = bins = None
    for f in a["variants"][0]["fields"]:
        t = f["ty"]
        if t["k"] == "array" and t["elem"].get("s") == "f64":
            rng = f["name"]
        elif t["k"] == "array" and t["elem"].get("s") == "u64":
            bins = f["name"]
    return rng, bins


def hist_state(m, est, name="self", strict=True, sorted_edges=True):
    cell, edges = R.hist_sym(m, est, name, sorted_edges=sorted_edges, strict=strict)
    rng, bn = hist_roles(m, est)
    fs = {n: x for n, x in zip(cell.v.names, cell.v.fields)}
    bins = list(fs[bn].elems)
    for b in bins:
        (s, _), = b.terms.items()
        m.ienv.declare(s, 0, 2**40)
    return cell, list(edges), bins, rng, bn


def spec_find(m, x, edges):
    """C06: None (out of range / NaN) or the unique i with edges[i] <= x < edges[i+1]; decided
    from the path's order facts (forks when they do not determine it)"""
    if m.truth(("isnan", x), None, "spec"):
        return None
    if m.truth(("fcmp", "Lt", x, edges[0]), None, "spec"):
        return None
    if m.truth(("fcmp", "Ge", x, edges[-1]), None, "spec"):
        return None
    for i in range(len(edges) - 1):
        if m.truth(("fcmp", "Lt", x, edges[i + 1]), None, "spec"):
            return i
    return None


def r_find_add(ctx, db, est, ln, consts=None, strict=True, bsearch="documented"):
    """find/add: never panic; succeed exactly on [range_min, range_max); select the unique
    half-open bin; add increments only that count by one and nothing on the error path"""
    for which in ("find", "add"):
        fp = est.m(which, None)
        if fp is None:
            ctx.floor("%s::%s present" % (est.path, which), 0, 1)
            continue
        fsite = R.fn_site(db, fp)

        def setup(m, which=which, fp=fp):
            cell, edges, bins, rng, bn = hist_state(m, est, strict=strict)
            x = F.atom("x")
            init_bins = list(bins)

            def thunk():
                r = call(m, fp, [VRef(cell, (), which == "add"), x])
                want = spec_find(m, x, edges)
                fs = {n: v for n, v in zip(cell.v.names, cell.v.fields)}
                return r, want, list(fs[bn].elems), init_bins, list(fs[rng].elems), edges
            return thunk, {"self": (cell, deep(cell.v))}
        paths, stats = explore(db, setup, Config(release=True, finite=False, consts=consts or {}, bsearch_contract=bsearch), 20000)
        ctx.count_run(Run(fp, paths, stats, which))
        tag = "LEN=%d" % ln + ("" if strict else ":repeated-edges(core's binary search)")
        for p in paths:
            pcs = pc_show(p.pc) or "unconditional"
            if p.status == "return":
                r, want, bins, init_bins, rng_after, edges = p.ret
                m = p.machine
                if not isinstance(r, VStruct):
                    ctx.ob("R-ORDCASE", "%s:result:%s" % (which, tag), fp, fsite, False, "unmodelled result %r" % (r,), inc=True)
                    continue
                is_ok = r.variant == 0
                if which == "find":
                    got = simp(r.fields[0]) if is_ok else None
                    ok = got == want
                    ctx.ob("R-ORDCASE", "find:bin:%s" % tag, fp, fsite, ok,
                           "find(x) returns %s, C06 selects %s [path: %s]" % ("Ok(%s)" % got if is_ok else "Err", "bin %s" % want if want is not None else "SampleOutOfRangeError", pcs),
                           sample={"result": "Ok(%s)" % got if is_ok else "Err", "spec": want, "path_condition": pcs[:300]})
                else:
                    ok_variant = is_ok == (want is not None)
                    deltas = []
                    for j, (a, b) in enumerate(zip(init_bins, bins)):
                        d = simp(Lin.lift(b) - Lin.lift(a))
                        if d != 0:
                            deltas.append((j, d))
                    exp = [(want, 1)] if want is not None else []
                    ok = ok_variant and deltas == exp
                    ctx.ob("R-FRAME", "add:one-bin:%s" % tag, fp, fsite, ok,
                           "add(x) returns %s and changes counts %s; C06: %s [path: %s]" % (
                               "Ok" if is_ok else "Err", deltas or "nothing",
                               ("Ok and bin %d += 1" % want) if want is not None else "Err and no change", pcs),
                           sample={"deltas": str(deltas), "spec": want})
                same_edges = all(a == b for a, b in zip(rng_after, edges))
                if not same_edges:
                    ctx.ob("R-FRAME", "%s:edges-untouched:%s" % (which, tag), fp, fsite, False, "edges modified by %s" % which)
            elif p.status == "panic":
                if is_debug_only(p.info.get("span") or {}):
                    continue
                nanx = p.machine.order.nan_status(F.atom("x"))
                ctx.ob("R-PANIC", "%s:%s" % (which, p.info.get("kind")), fp, fsite, False,
                       "%s(x) can panic (%s at %s)%s [path: %s]" % (which, p.info.get("kind"), site(p.info.get("span")),
                                                                   " for x = NaN" if nanx else "", pcs),
                       sample={"x_is_nan": nanx, "at": site(p.info.get("span"))})
            else:
                ctx.ob("R-ORDCASE", "%s:%s" % (which, tag), fp, fsite, False, str(p.info.get("why")), inc=True)


def drawn_items(m):
    return [v for (_t, _i, v) in getattr(m, "items", [])]


def spec_from_ranges(m, items, ended, ln):
    """C12 on the drawn prefix: ('Ok', values) or ('Err', kind)"""
    vals = []
    for j, v in enumerate(items):
        if j > ln:
            break
        if m.truth(("isnan", v), None, "spec"):
            return ("Err", "NaN")
        if j > 0 and m.truth(("fcmp", "Gt", items[j - 1], v), None, "spec"):
            return ("Err", "NotSorted")
        vals.append(v)
    if len(vals) < ln + 1:
        if not ended:
            # fewer than LEN+1 clean values were read and the source was not exhausted: whatever is
            # returned now was decided without looking at values that determine the outcome
            return ("Undetermined", "the input was neither read to the end nor far enough")
        return ("Err", "NotEnoughRanges")
    return ("Ok", vals)


def r_from_ranges(ctx, db, est, ln, consts=None):
    fp = est.m("from_ranges", None)
    if fp is None:
        ctx.floor("%s::from_ranges present" % est.path, 0, 1)
        return 0
    fsite = R.fn_site(db, fp)
    f = db.fns[fp]

    def setup(m):
        src = VOpaque(f["locals"][1]["ty"], "input")

        def thunk():
            r = call(m, fp, [src])
            items = drawn_items(m)
            want = spec_from_ranges(m, items, any(getattr(m, "iter_ended", {}).values()), ln)
            return r, want, items
        return thunk, {}
    paths, stats = explore(db, setup, Config(release=True, finite=False, consts=consts or {}, max_items=ln + 3), 60000)
    ctx.count_run(Run(fp, paths, stats, "from_ranges"))
    tag = "LEN=%d" % ln
    n = 0
    for p in paths:
        pcs = pc_show(p.pc) or "unconditional"
        if p.status == "return":
            n += 1
            r, want, items = p.ret
            if not isinstance(r, VStruct):
                ctx.ob("R-GUARD", "from_ranges:%s" % tag, fp, fsite, False, "unmodelled result", inc=True)
                continue
            if r.variant == 0:
                h = r.fields[0]
                rng, bn = hist_roles(p.machine, est)
                fs = {nm: v for nm, v in zip(h.names, h.fields)}
                got = ("Ok", list(fs[rng].elems))
                zero_bins = all(simp(b) == 0 for b in fs[bn].elems)
            else:
                e = r.fields[0]
                got = ("Err", e.vname if isinstance(e, VStruct) else "?")
                zero_bins = True
            ok = got == want and zero_bins
            ctx.ob("R-GUARD", "from_ranges:outcome:%s" % tag, fp, fsite, ok,
                   "with %d input values drawn, from_ranges returns %s; C12: %s%s [path: %s]" % (
                       len(items), short_out(got), short_out(want), "" if zero_bins else "; counts not zero", pcs),
                   sample={"drawn": len(items), "result": short_out(got), "spec": short_out(want), "path_condition": pcs[:300]})
        elif p.status == "panic":
            if is_debug_only(p.info.get("span") or {}):
                continue
            ctx.ob("R-PANIC", "from_ranges:%s" % p.info.get("kind"), fp, fsite, False,
                   "from_ranges can panic (%s at %s) [path: %s]" % (p.info.get("kind"), site(p.info.get("span")), pcs))
        else:
            ctx.ob("R-GUARD", "from_ranges:%s" % tag, fp, fsite, False, str(p.info.get("why")), inc=True)
    return n


def short_out(o):
    if o[0] == "Ok":
        return "Ok(edges = %s)" % [show_val(v)[:12] for v in o[1]]
    if o[0] == "Undetermined":
        return "not determined by the values read (%s)" % o[1]
    return "Err(%s)" % o[1]


def r_const_width(ctx, db, est, ln, consts=None):
    fp = est.m("with_const_width", None)
    if fp is None:
        return
    fsite = R.fn_site(db, fp)

    def setup(m):
        a, b = F.atom("start"), F.atom("end")
        m.order.set_nan(a, False)
        m.order.set_nan(b, False)
        m.order.assume("Lt", a, b, True)
        return (lambda: (call(m, fp, [a, b]), a, b)), {}
    paths, stats = explore(db, setup, Config(release=True, consts=consts or {}), 100)
    ctx.count_run(Run(fp, paths, stats, "with_const_width"))
    for p in paths:
        if p.status != "return":
            if p.status == "panic" and is_debug_only(p.info.get("span") or {}):
                continue
            ctx.ob("R-IDENT", "const-width:LEN=%d" % ln, fp, fsite, False, "with_const_width: %s %s" % (p.status, p.info.get("kind") or p.info.get("why")),
                   inc=p.status == "inconclusive")
            continue
        h, a, b = p.ret
        rng, bn = hist_roles(p.machine, est)
        fs = {nm: v for nm, v in zip(h.names, h.fields)}
        edges = fs[rng].elems
        ctx.ob("R-IDENT", "const-width:first-edge:LEN=%d" % ln, fp, fsite, edges[0] == a and len(edges) == ln + 1,
               "first edge is %s (must be exactly `start`), %d edges" % (show_val(edges[0])[:80], len(edges)))
        # over the reals edge i = start + i*(end-start)/LEN (rounding of the formula is not decided)
        pairs = []
        for i, e in enumerate(edges):
            want = F.mk("add", a, F.mk("div", F.mk("mul", F.lit(float(i)), F.mk("sub", b, a)), F.lit(float(ln))))
            pairs.append(("edge[%d]" % i, e, want))
        ok, diff = pit.identical(pairs, seed=4, points=3, squares=False)
        ctx.ob("R-LAW", "L8:const-width-edges:LEN=%d" % ln, fp, fsite, ok,
               "edges equal start + i*(end-start)/LEN over the reals" if ok else "edge %s differs from start + i*(end-start)/LEN over the reals" % diff[0], d7=True)
        zero = all(simp(x) == 0 for x in fs[bn].elems)
        ctx.ob("R-IDENT", "const-width:zero-counts:LEN=%d" % ln, fp, fsite, zero, "all counts are zero" if zero else "counts not zero")


def r_merge_addassign(ctx, db, est, ln, consts=None):
    """merge / += : bin-wise sum with identical edges; with different edges a panic before any
    write (neither operand changed); merge and += agree"""
    summaries = {}
    for which in ("merge", "add_assign"):
        fp = est.merge if which == "merge" else est.m("add_assign")
        if fp is None:
            ctx.floor("%s::%s present" % (est.path, which), 0, 1)
            continue
        fsite = R.fn_site(db, fp)

        def setup(m, fp=fp):
            a, ea, ba, rng, bn = hist_state(m, est, "self", sorted_edges=False)
            b, eb, bb, _, _ = hist_state(m, est, "other", sorted_edges=False)

            def thunk():
                call(m, fp, [VRef(a, (), True), VRef(b, (), False)])
                fs = {n: v for n, v in zip(a.v.names, a.v.fields)}
                return list(fs[bn].elems), ba, bb, list(fs[rng].elems), ea, eb
            return thunk, {"self": (a, deep(a.v)), "other": (b, deep(b.v))}
        paths, stats = explore(db, setup, Config(release=True, consts=consts or {}), 5000)
        ctx.count_run(Run(fp, paths, stats, which))
        tag = "LEN=%d" % ln
        nret = npanic = 0
        for p in paths:
            pcs = pc_show(p.pc) or "unconditional"
            m = p.machine
            if p.status == "return":
                nret += 1
                bins, ba, bb, rng_after, ea, eb = p.ret
                same = all(m.order.decide("Eq", x, y) is True for x, y in zip(ea, eb))
                sums = all(m.ienv.cmp("Eq", simp(g), simp(Lin.lift(x) + Lin.lift(y))) is True for g, x, y in zip(bins, ba, bb))
                untouched = all(x == y for x, y in zip(rng_after, ea)) and not changed_leaves(p, "other")
                ctx.ob("R-GUARD", "%s:returns-only-on-equal-edges:%s" % (which, tag), fp, fsite, same,
                       "%s returns normally %s [path: %s]" % (which, "only when all %d edges compare equal" % len(ea) if same else "although some edge pair is not known equal", pcs[:300]))
                ctx.ob("R-FRAME", "%s:binwise-sum:%s" % (which, tag), fp, fsite, sums and untouched,
                       "counts after %s are %s; edges and argument %s" % (which, "self[j] + other[j] for every j" if sums else [show_val(b) for b in bins][:4],
                                                                         "unchanged" if untouched else "CHANGED"))
                summaries[which] = [show_val(simp(b)) for b in bins]
            elif p.status == "panic":
                if is_debug_only(p.info.get("span") or {}):
                    continue
                npanic += 1
                w = [x for x in p.writes if x["root"] in ("self", "other")]
                differ = any(m.order.decide("Eq", x, y) is not True for x, y in zip(*edge_pairs(p)))
                ctx.ob("R-GUARD", "%s:no-write-before-panic:%s" % (which, tag), fp, fsite, not w,
                       ("%s writes %s before panicking on an edge mismatch — an operand is left modified [path: %s]" % (which, sorted({"%s%s" % (x["root"], list(x["path"])) for x in w})[:4], pcs[:300]))
                       if w else "the edge-mismatch panic is raised before any write to either operand [path: %s]" % pcs[:200])
            else:
                ctx.ob("R-GUARD", "%s:%s" % (which, tag), fp, fsite, False, str(p.info.get("why")), inc=True)
        ctx.ob("R-GUARD", "%s:panics-on-mismatch:%s" % (which, tag), fp, fsite, npanic >= ln + 1,
               "%s has %d panicking paths for unequal edges (one per edge position expected: %d)" % (which, npanic, ln + 1))
    if len(summaries) == 2:
        ctx.ob("R-SIB", "merge=add_assign:LEN=%d" % ln, est.merge, R.fn_site(db, est.merge), summaries["merge"] == summaries["add_assign"],
               "merge and += produce the same counts" if summaries["merge"] == summaries["add_assign"] else "merge and += differ: %s vs %s" % (summaries["merge"][:3], summaries["add_assign"][:3]))


def edge_pairs(p):
    a = [v for k, v in sorted(init_leaves(p, "self").items(), key=lambda kv: R.leaf_index(kv[0])) if is_float(v)]
    b = [v for k, v in sorted(init_leaves(p, "other").items(), key=lambda kv: R.leaf_index(kv[0])) if is_float(v)]
    return a, b


def r_scale_reset(ctx, db, est, ln, consts=None):
    mp = est.m("mul_assign")
    rp = est.m("reset", None)
    for which, fp in (("mul_assign", mp), ("reset", rp)):
        if fp is None:
            ctx.floor("%s::%s present" % (est.path, which), 0, 1)
            continue
        fsite = R.fn_site(db, fp)

        def setup(m, which=which, fp=fp):
            a, ea, ba, rng, bn = hist_state(m, est, "self")
            k = Lin.sym("k")
            m.ienv.declare("k", 0, 2**20)

            def thunk():
                call(m, fp, [VRef(a, (), True)] + ([k] if which == "mul_assign" else []))
                fs = {n: v for n, v in zip(a.v.names, a.v.fields)}
                return list(fs[bn].elems), ba, list(fs[rng].elems), ea, k
            return thunk, {"self": (a, deep(a.v))}
        paths, stats = explore(db, setup, Config(release=True, consts=consts or {}), 500)
        ctx.count_run(Run(fp, paths, stats, which))
        for p in paths:
            if p.status != "return":
                if p.status == "panic" and is_debug_only(p.info.get("span") or {}):
                    continue
                if p.status == "panic" and p.info.get("kind") == "assert:Overflow":
                    continue  # u64 overflow of a count: outside the property (DESIGN: left open)
                ctx.ob("R-FRAME", "%s:LEN=%d" % (which, ln), fp, fsite, False, "%s: %s %s" % (which, p.status, p.info.get("kind") or p.info.get("why")),
                       inc=p.status == "inconclusive")
                continue
            bins, ba, rng_after, ea, k = p.ret
            edges_ok = all(x == y for x, y in zip(rng_after, ea))
            if which == "reset":
                ok = all(simp(b) == 0 for b in bins)
                ctx.ob("R-FRAME", "reset:zero-counts-keep-edges:LEN=%d" % ln, fp, fsite, ok and edges_ok,
                       "reset %s and %s the edges" % ("zeroes all counts" if ok else "leaves counts %s" % [show_val(b) for b in bins][:3], "keeps" if edges_ok else "CHANGES"))
            else:
                ok = True
                for g, x in zip(bins, ba):
                    g = simp(g)
                    # product of two symbols is an opaque symbol in the affine domain: compare structurally
                    # through the evaluator's own multiplication
                    ok = ok and is_int(g)
                prods = [p.machine.int_binop("Mul", x, k, "u64", None) for x in ba]
                # each count must be a fresh product symbol (one per bin) or an affine multiple
                kinds = [isinstance(simp(g), Lin) and any(s.startswith("mul#") for s in simp(g).terms) for g in bins]
                ok = all(kinds) and len({simp(g).key() for g in bins}) == len(bins)
                ctx.ob("R-FRAME", "mul_assign:every-count-scaled:LEN=%d" % ln, fp, fsite, ok and edges_ok,
                       "`*= k` replaces each of the %d counts by a product with k and %s the edges" % (len(bins), "keeps" if edges_ok else "CHANGES"))


def r_iter_views(ctx, db, est, ln, consts=None):
    """iteration yields ((lower, upper), count) for j < LEN in edge order; the views are computed
    from exactly those items by the formulas C13 states; variance(i) == variances()[i]"""
    TR = "traits::Histogram"
    getters = {}
    for name in ("normalized_bins", "widths", "centers", "variances", "variance", "iter"):
        p = est.m(name, None) or est.m(name, TR) or ((TR + "::" + name) if (TR + "::" + name) in db.fns else None)
        getters[name] = p
    ITER = "core::iter::traits::iterator::Iterator"
    INTO = "core::iter::traits::collect::IntoIterator"

    def drain(m, itv, maxn):
        out = []
        import summaries as S
        cell = Cell(itv)
        nref = {"fn": "core::iter::traits::iterator::Iterator::next", "trait": ITER, "name": "next"}
        for _ in range(maxn + 2):
            o = S.iter_next(m, nref, [VRef(cell, (), True)], None, None)
            if o.variant == 0:
                # "exactly LEN items": polled again after the end, the iterator stays exhausted (and
                # does not panic: a panic ends the path and is reported by the caller)
                for _again in range(2):
                    o2 = S.iter_next(m, nref, [VRef(cell, (), True)], None, None)
                    if o2.variant != 0:
                        out.append(o2.fields[0])
                        return out, False
                return out, True
            out.append(o.fields[0])
        return out, False

    def setup(m):
        a, ea, ba, rng, bn = hist_state(m, est, "self")
        for b in ba:
            (s, _), = b.terms.items()
            m.ienv.declare(s, 0, 2**40)   # empty bins and the empty histogram (total 0: 0/0) included; counts are u64
        ref = VRef(a, (), False)

        def thunk():
            res = {}
            p = db.find_impl_method(INTO, "&" + est.path, "into_iter")
            it = call(m, p, [ref])
            res["iter"] = drain(m, it, ln)
            for name in ("normalized_bins", "widths", "centers", "variances"):
                if getters[name]:
                    res[name] = drain(m, call(m, getters[name], [ref]), ln)
            if getters["variance"]:
                res["variance"] = [call(m, getters["variance"], [ref, j]) for j in range(ln)]
            return res, ea, ba
        return thunk, {"self": (a, deep(a.v))}
    paths, stats = explore(db, setup, Config(release=True, consts=consts or {}), 200)
    ctx.count_run(Run(est.path + "::iter", paths, stats, "views"))
    fn = est.path + " (iteration and views)"
    fsite = R.fn_site(db, db.find_impl_method(INTO, "&" + est.path, "into_iter") or "")
    for p in paths:
        if p.status != "return":
            if p.status == "panic" and is_debug_only(p.info.get("span") or {}):
                continue
            ctx.ob("R-FRAME", "views:LEN=%d" % ln, fn, fsite, False, "iteration/views: %s %s at %s" % (p.status, p.info.get("kind") or p.info.get("why"), site(p.info.get("span"))),
                   inc=p.status == "inconclusive")
            continue
        res, ea, ba = p.ret
        m = p.machine
        items, ended = res["iter"]
        ok = ended and len(items) == ln
        if ok:
            for j, it in enumerate(items):
                try:
                    (lo, hi), c = it.fields[0].fields, it.fields[1]
                except Exception:
                    ok = False
                    break
                ok = ok and lo == ea[j] and hi == ea[j + 1] and simp(c) == simp(ba[j])
        ctx.ob("R-FRAME", "iter:items:LEN=%d" % ln, fn, fsite, ok,
               "iteration yields %d item(s)%s; C13: exactly LEN items ((edge[j], edge[j+1]), count[j])" % (len(items), "" if ended else " and does not end"))
        tot = simp(sum((Lin.lift(b) for b in ba), Lin.const(0)))
        ftot = F.i2f(tot)
        specs = {
            "widths": lambda j: F.mk("sub", ea[j + 1], ea[j]),
            "centers": lambda j: F.mk("div", F.mk("add", ea[j], ea[j + 1]), F.lit(2.0)),
            "normalized_bins": lambda j: F.mk("div", F.i2f(ba[j]), F.mk("sub", ea[j + 1], ea[j])),
            "variances": lambda j: F.mk("mul", F.i2f(ba[j]), F.mk("sub", F.ONE, F.mk("div", F.i2f(ba[j]), ftot))),
        }
        for name, spec in specs.items():
            if name not in res:
                continue
            vals, ended = res[name]
            if not ended or len(vals) != ln:
                ctx.ob("R-LAW", "L8:%s:LEN=%d" % (name, ln), getters[name], R.fn_site(db, getters[name]), False,
                       "%s() yields %d values%s (LEN = %d)" % (name, len(vals), "" if ended else " and does not end", ln), d7=False)
                continue
            pairs = [("%s[%d]" % (name, j), v, spec(j)) for j, v in enumerate(vals)]
            try:
                okv, diff = pit.identical(pairs, seed=6, points=3, int_bounds=R._pit_bounds(m), squares=False)
            except pit.NeedSymbolic as e:
                ctx.ob("R-LAW", "L8:%s:LEN=%d" % (name, ln), getters[name], R.fn_site(db, getters[name]), False, str(e), inc=True)
                continue
            ctx.ob("R-LAW", "L8:%s:LEN=%d" % (name, ln), getters[name], R.fn_site(db, getters[name]), okv,
                   "%s() equals the formula of C13 for every bin" % name if okv else "%s differs from the formula of C13 (%s vs %s)" % (diff[0], diff[2], diff[3]), d7=True)
        if "variance" in res and "variances" in res and len(res["variances"][0]) == ln:
            pairs = [("variance(%d)" % j, a, b) for j, (a, b) in enumerate(zip(res["variance"], res["variances"][0]))]
            bad = [lab for lab, a, b in pairs if a != b]
            ctx.ob("R-SIB", "variance(i)=variances()[i]:LEN=%d" % ln, getters["variance"], R.fn_site(db, getters["variance"]), not bad,
                   "variance(i) is computed by exactly the same arithmetic as the i-th value of variances()" if not bad
                   else "%s is not computed by the same arithmetic as variances() (agreement only up to rounding): %s vs %s" % (
                       bad[0], show_val(dict((l, a) for l, a, b in pairs)[bad[0]])[:120], show_val(dict((l, b) for l, a, b in pairs)[bad[0]])[:120]))


def r_views_special_values(ctx, db, est, ln, consts=None):
    """widths(), centers() and normalized_bins() on concrete edge vectors that the real-number comparison
    of R-LAW L8 cannot see: infinite outer edges (documented as legal for from_ranges; (-inf + x)/2 = -inf,
    inf - x = inf) and a bin of subnormal width (1/width overflows although count/width need not).  The
    views are evaluated with IEEE semantics on constants and compared with C13's formulas."""
    import math
    if ln < 1:
        return
    vectors = [("infinite-outer-edges", [-math.inf] + [float(2 * i - ln) for i in range(1, ln)] + [math.inf]),
               ("subnormal-width", [0.0, 4e-309] + [float(i) for i in range(1, ln)]),
               # a repeated edge (legal): an empty zero-width first bin; every view still has LEN items
               ("zero-width", [1.0] + [float(i) for i in range(1, ln + 1)])]
    counts = [(3 * j) % 4 for j in range(ln)]          # concrete counts, the first bin empty
    def ieee_div(c, w):
        if w == 0:
            return float("nan") if c == 0 else math.copysign(math.inf, c) * math.copysign(1.0, w)
        return float(c) / w
    specs = (("widths", lambda a, b, c: b - a), ("centers", lambda a, b, c: 0.5 * (a + b)),
             ("normalized_bins", lambda a, b, c: ieee_div(c, b - a)))
    for vname, edges in vectors:
        for name, spec in specs:
            _special_view(ctx, db, est, ln, consts, vname, edges, counts, name, spec)


def _special_view(ctx, db, est, ln, consts, vname, edges, counts, name, spec):
    TR = "traits::Histogram"
    gp = est.m(name, None) or est.m(name, TR) or ((TR + "::" + name) if (TR + "::" + name) in db.fns else None)
    if gp is None:
        return

    def setup(m):
        a, ea, ba, rng, bn = hist_state(m, est, "self")
        fs = {n_: x for n_, x in zip(a.v.names, a.v.fields)}
        fs[rng].elems[:] = [F.lit(e) for e in edges]
        fs[bn].elems[:] = list(counts)
        ref = VRef(a, (), False)
        import summaries as S
        nref = {"fn": "core::iter::traits::iterator::Iterator::next", "trait": "core::iter::traits::iterator::Iterator", "name": "next"}

        def thunk():
            cell = Cell(call(m, gp, [ref]))
            out = []
            for _ in range(ln + 1):
                o = S.iter_next(m, nref, [VRef(cell, (), True)], None, None)
                if o.variant == 0:
                    break
                out.append(o.fields[0])
            return out
        return thunk, {}
    paths, stats = explore(db, setup, Config(release=True, finite=False, fold_inexact=True, consts=consts or {}), 64)
    ctx.count_run(Run(gp, paths, stats, "special-" + name))
    key = "L8:%s:%s:LEN=%d" % (name, vname, ln)
    for p in paths:
        if p.status != "return":
            if p.status == "panic" and is_debug_only(p.info.get("span") or {}):
                continue
            ctx.ob("R-LAW", key, gp, R.fn_site(db, gp), False, "%s() on edges %s: %s %s" % (name, edges, p.status, p.info.get("kind") or p.info.get("why")),
                   inc=p.status == "inconclusive", d7=False)
            continue
        vals = p.ret
        want = [spec(edges[j], edges[j + 1], counts[j]) for j in range(ln)]
        bad = None
        if len(vals) != ln:
            bad = "%d values" % len(vals)
        else:
            for j, (v, w) in enumerate(zip(vals, want)):
                if not (is_float(v) and F.is_lit(v)):
                    bad = "bin %d: %s is not a constant" % (j, show_val(v)[:60])
                    break
                x = F.litval(v)
                if not ((x != x and w != w) or x == w):
                    bad = "bin %d: %r, C13's formula gives %r" % (j, x, w)
                    break
        ctx.ob("R-LAW", key, gp, R.fn_site(db, gp), bad is None,
               "%s() on edges %s with counts %s equals the formula evaluated in IEEE arithmetic" % (name, edges, counts) if bad is None else
               "%s() on edges %s with counts %s: %s" % (name, edges, counts, bad), d7=False)


def r_hist_clone(ctx, db, est, ln, consts=None):
    """histories include clone: clone() is an exact copy; a hand-written clone_from as well"""
    CL = "core::clone::Clone"
    cp = est.m("clone", CL)
    if cp is None or cp not in db.fns:
        ctx.ob("R-IDENT", "clone-exact:LEN=%d" % ln, est.path, "-", False, "no Clone impl found for the histogram", inc=True)
        return

    def setup(m):
        a, ea, ba, rng, bn = hist_state(m, est, "src", strict=False)
        want = leaf_map(deep(a.v))

        def thunk():
            r = call(m, cp, [VRef(a, (), False)])
            return leaf_map(r), want, leaf_map(a.v)
        return thunk, {}
    paths, stats = explore(db, setup, Config(release=True, finite=False, consts=consts or {}), 200)
    ctx.count_run(Run(cp, paths, stats, "clone"))
    for p in paths:
        if p.status == "return":
            got, want, after = p.ret
            bad = R.exact_state_equal(p, got, want) or R.exact_state_equal(p, after, want)
            ctx.ob("R-IDENT", "clone-exact:LEN=%d" % ln, cp, R.fn_site(db, cp), not bad,
                   "clone() copies edges and counts exactly" if not bad else "clone() changes %s" % (bad[:3],))
        elif not (p.status == "panic" and is_debug_only(p.info.get("span") or {})):
            ctx.ob("R-IDENT", "clone-exact:LEN=%d" % ln, cp, R.fn_site(db, cp), False, "clone: %s" % p.status, inc=p.status == "inconclusive")
    R.r_clone_from_exact(ctx, db, est, lambda m, nm: hist_state(m, est, nm, strict=False)[0], tag=":LEN=%d" % ln)


def r_iter_overrides(ctx, db, est, ln, consts=None):
    """R-SIB for iterators: `next` is the definition of an iterator; every other Iterator method an
    impl overrides (nth, size_hint, count, last) must agree with what the default method computes
    from `next` — `skip`, `step_by`, `zip`, `collect` reach the items through those overrides."""
    TR = "traits::Histogram"
    ITER = "core::iter::traits::iterator::Iterator"
    INTO = "core::iter::traits::collect::IntoIterator"
    import summaries as S
    getters = {"iter": db.find_impl_method(INTO, "&" + est.path, "into_iter")}
    for name in ("normalized_bins", "widths", "centers", "variances"):
        getters[name] = est.m(name, None) or est.m(name, TR) or ((TR + "::" + name) if (TR + "::" + name) in db.fns else None)
    nref = {"fn": ITER + "::next", "trait": ITER, "name": "next"}
    n_ob = 0

    def nxt(m, cell):
        o = S.iter_next(m, nref, [VRef(cell, (), True)], None, None)
        return None if o.variant == 0 else o.fields[0]

    def drain(m, cell, cap):
        out = []
        for _ in range(cap + 2):
            x = nxt(m, cell)
            if x is None:
                return out
            out.append(x)
        return out + ["..."]

    for gname, gp in sorted(getters.items()):
        if gp is None:
            continue
        # the iterator type this getter returns and the methods its impl overrides
        probe = Machine(db, [], Config(release=True, consts=consts or {}))
        try:
            a, ea, ba, rng, bn = hist_state(probe, est, "self")
            itv = call(probe, gp, [VRef(a, (), False)])
        except Exception:
            continue
        if not isinstance(itv, VStruct):
            continue
        over = sorted(it["name"] for i in db.impl_of.get((ITER, itv.path), []) for it in i["items"] if it["name"] != "next" and it.get("kind", "AssocFn") == "AssocFn")
        for meth in over:
            mp = db.find_impl_method(ITER, itv.path, meth)
            if mp is None or mp not in db.fns:
                continue
            fsite = R.fn_site(db, mp)
            key = "iterator-override:%s:%s:LEN=%d" % (gname, meth, ln)
            if meth not in ("nth", "size_hint", "count", "last"):
                ctx.ob("R-SIB", key, mp, fsite, False, "override of Iterator::%s is not compared with the default built from next()" % meth, inc=True)
                n_ob += 1
                continue
            ks = list(range(0, ln + 2)) if meth == "nth" else [None]
            pre = list(range(0, ln + 1)) if meth != "nth" else [0, 1]
            for k in ks:
                for consumed in pre:
                    def setup(m, k=k, consumed=consumed):
                        a, ea, ba, rng, bn = hist_state(m, est, "self")
                        ref = VRef(a, (), False)

                        def thunk():
                            c1, c2 = Cell(call(m, gp, [ref])), Cell(call(m, gp, [ref]))
                            for _ in range(consumed):
                                nxt(m, c1)
                                nxt(m, c2)
                            if meth == "nth":
                                got = call(m, mp, [VRef(c1, (), True), k])
                                got = None if got.variant == 0 else got.fields[0]
                                want = None
                                for _ in range(k + 1):
                                    want = nxt(m, c2)
                                    if want is None:
                                        break
                                return ("nth", show_val(got), show_val(want), [show_val(x) for x in drain(m, c1, ln)], [show_val(x) for x in drain(m, c2, ln)])
                            if meth == "count":
                                got = call(m, mp, [deep(c1.v)])
                                return ("count", show_val(simp(got)), str(len(drain(m, c2, ln))), [], [])
                            if meth == "last":
                                got = call(m, mp, [deep(c1.v)])
                                got = None if got.variant == 0 else got.fields[0]
                                rest = drain(m, c2, ln)
                                return ("last", show_val(got), show_val(rest[-1] if rest else None), [], [])
                            got = call(m, mp, [VRef(c1, (), False)])
                            rest = len(drain(m, c2, ln))
                            lo = simp(got.fields[0])
                            hi = got.fields[1]
                            hi_ok = (hi.variant == 0) or (isinstance(simp(hi.fields[0]), int) and simp(hi.fields[0]) >= rest)
                            return ("size_hint", "lower %s, upper %s" % (show_val(lo), show_val(hi)), "lower <= %d <= upper" % rest,
                                    [str(isinstance(lo, int) and lo <= rest and hi_ok)], ["True"])
                        return thunk, {}
                    paths, stats = explore(db, setup, Config(release=True, consts=consts or {}), 64)
                    ctx.count_run(Run(mp, paths, stats, key))
                    for p in paths:
                        n_ob += 1
                        lab = "%s(%s) after %d item(s)" % (meth, "" if k is None else k, consumed)
                        if p.status != "return":
                            ctx.ob("R-SIB", key, mp, fsite, False, "%s: %s %s" % (lab, p.status, p.info.get("kind") or p.info.get("why")), inc=p.status == "inconclusive")
                            continue
                        kind, got, want, r1, r2 = p.ret
                        ok = got == want and r1 == r2 if kind != "size_hint" else r1 == r2
                        ctx.ob("R-SIB", key, mp, fsite, ok,
                               "%s on %s(): %s; the default built from next() gives %s%s" % (
                                   lab, gname, got, want, "" if r1 == r2 else "; the items that follow differ: %s vs %s" % (r1[:2], r2[:2])))
    return n_ob


def r_bin_variance_range(ctx, db, est, ln, consts=None):
    """bin variance c*(1 - c/total) lies in [0, c]: over the reals 1 - c_i/total = (sum of the
    other counts)/total, a ratio of non-negative quantities"""
    import d7
    import sympy as sp
    TR = "traits::Histogram"
    vp = est.m("variance", None) or est.m("variance", TR) or ((TR + "::variance") if (TR + "::variance") in db.fns else None)
    if vp is None:
        return
    for j in range(ln):
        box = {}

        def setup(m, j=j):
            a, ea, ba, rng, bn = hist_state(m, est, "self")
            box["ba"] = ba
            return (lambda: call(m, vp, [VRef(a, (), False), j])), {}
        paths, stats = explore(db, setup, Config(release=True, consts=consts or {}), 16)
        ctx.count_run(Run(vp, paths, stats, "bin-variance"))
        rets = [p for p in paths if p.status == "return" and is_float(p.ret)]
        if not rets:
            ctx.ob("R-SIGN", "bin-variance-range:LEN=%d:bin=%d" % (ln, j), vp, R.fn_site(db, vp), False,
                   "variance(%d) has no returning path with a float result: %s" % (j, [(p.status, (p.info or {}).get("kind") or (p.info or {}).get("why")) for p in paths][:3]), inc=True)
            continue
        ba = box["ba"]
        for pi, pth in enumerate(sorted(rets, key=lambda p: len(p.pc))):
            _bin_variance_path(ctx, db, vp, ln, j, pth, ba, "" if pi == 0 else ":path%d" % pi)


def _bin_variance_path(ctx, db, vp, ln, j, pth, ba, tag):
        import d7
        import sympy as sp
        m, v = pth.machine, pth.ret
        cv = d7.Conv(positive=lambda n: True, machine=m)
        try:
            e = sp.cancel(sp.together(cv.conv(v)))
        except Exception as ex:
            ctx.ob("R-SIGN", "bin-variance-range:LEN=%d:bin=%d%s" % (ln, j, tag), vp, R.fn_site(db, vp), False,
                   "variance(%d) on path [%s] is not an expression the sign analysis can read: %s" % (j, pc_show(pth.pc)[:120], ex), inc=True)
            return
        c = cv.conv(F.i2f(ba[j]))
        num, den = sp.fraction(e)
        import num_rules as N
        ok0 = N.all_nonneg_poly(num) and N.all_nonneg_poly(den)
        num2, den2 = sp.fraction(sp.cancel(sp.together(c - e)))
        ok1 = N.all_nonneg_poly(num2) and N.all_nonneg_poly(den2)
        # upper bound total/4: total/4 - variance must be (a perfect square) / (positive)
        tot = sum((cv.conv(F.i2f(b)) for b in ba), sp.Integer(0))
        numq, denq = sp.fraction(sp.cancel(sp.together(tot / 4 - e)))
        cst, facs = sp.factor_list(numq)
        okq = ((cst > 0 and all(ex % 2 == 0 for _, ex in facs)) or N.all_nonneg_poly(numq)) and N.all_nonneg_poly(denq)
        ctx.ob("R-SIGN", "bin-variance-quarter:LEN=%d:bin=%d%s" % (ln, j, tag), vp, R.fn_site(db, vp), okq,
               "total/4 - variance(%d) = %s: %s" % (j, sp.factor(tot / 4 - e), "a square (or a polynomial with non-negative coefficients) over a positive denominator, so variance <= total/4 over the reals" if okq else "not a square: the bound total/4 is not established"),
               d7=True)
        ctx.ob("R-SIGN", "bin-variance-range:LEN=%d:bin=%d%s" % (ln, j, tag), vp, R.fn_site(db, vp), ok0 and ok1,
               "variance(%d) = %s is %s" % (j, e, "a ratio of polynomials with non-negative coefficients in the counts, and so is count - variance: it lies in [0, count]"
                                            if ok0 and ok1 else "not provably within [0, count]"), d7=True)


# ---------------------------------------------------------------------------------------------
# R-MONO: with_const_width edges are non-decreasing by construction (sound for IEEE arithmetic:
# rounding is monotone, so a composition of operations each monotone in the bin index is monotone)


def mono_pair(m, se, a, b):
    """monotonicity class of the map (index i -> residual) given the residuals a (at i) and b (at
    i+1): 'const', 'inc', 'dec' or None.  The two trees must differ only in index literals."""
    if a == b:
        return "const"
    if F.is_lit(a) and F.is_lit(b):
        x, y = F.litval(a), F.litval(b)
        return "inc" if y > x else ("dec" if y < x else "const")
    if a[0] != b[0] or len(a) != len(b):
        # `x * 1.0` is folded to `x` by the evaluator (exact identity): undo it for the comparison
        if b[0] == "mul" and F.is_lit(b[2]) and a == b[1]:
            return mono_pair(m, se, ("mul", a, F.ONE), b)
        if b[0] == "mul" and F.is_lit(b[1]) and a == b[2]:
            return mono_pair(m, se, ("mul", F.ONE, a), b)
        if a[0] == "mul" and F.is_lit(a[2]) and b == a[1]:
            return mono_pair(m, se, a, ("mul", b, F.ONE))
        if b[0] == "div" and F.is_lit(b[1]) and F.is_lit(a):
            return None
        return None
    k = a[0]
    if k == "neg":
        r = mono_pair(m, se, a[1], b[1])
        return {"inc": "dec", "dec": "inc", "const": "const"}.get(r)
    if k in ("add", "sub"):
        r1 = mono_pair(m, se, a[1], b[1])
        r2 = mono_pair(m, se, a[2], b[2])
        if r1 is None or r2 is None:
            return None
        if k == "sub":
            r2 = {"inc": "dec", "dec": "inc", "const": "const"}[r2]
        if r1 == "const":
            return r2
        if r2 == "const" or r1 == r2:
            return r1
        return None
    if k in ("mul", "div"):
        r1 = mono_pair(m, se, a[1], b[1])
        r2 = mono_pair(m, se, a[2], b[2])
        if r1 is None or r2 is None:
            return None
        if r1 == "const" and r2 == "const":
            return "const"
        if r2 == "const":
            s = se.of(a[2])
            if s in ("pos", "nonneg", "zero"):
                return r1
            if s in ("neg", "nonpos"):
                return {"inc": "dec", "dec": "inc"}[r1]
            return None
        if r1 == "const" and k == "mul":
            s = se.of(a[1])
            if s in ("pos", "nonneg", "zero"):
                return r2
            if s in ("neg", "nonpos"):
                return {"inc": "dec", "dec": "inc"}[r2]
        return None
    return None


def op_count(n):
    """number of distinct rounded arithmetic operations in a residual"""
    seen = set()
    stack = [n]
    c = 0
    while stack:
        x = stack.pop()
        if not isinstance(x, tuple) or x in seen:
            continue
        seen.add(x)
        if x[0] in ("add", "sub", "mul", "div"):
            if not (F.is_lit(x[1]) and F.is_lit(x[2])):
                c += 1
            stack.extend(x[1:])
        elif x[0] == "neg":
            stack.append(x[1])
        elif x[0] == "fn":
            c += 1
            stack.extend(a for a in x[2:] if isinstance(a, tuple))
    return c


def r_const_width_monotone(ctx, db, est, ln, consts=None):
    from sign import SignEnv
    fp = est.m("with_const_width", None)
    if fp is None or ln < 2:
        return
    fsite = R.fn_site(db, fp)
    m = Machine(db, [], Config(release=True, consts=consts or {}))
    a, b = F.atom("start"), F.atom("end")
    m.order.set_nan(a, False)
    m.order.set_nan(b, False)
    m.order.assume("Lt", a, b, True)
    try:
        h = call(m, fp, [a, b])
    except (PathEnd, Unsupported) as e:
        ctx.ob("R-MONO", "const-width:LEN=%d" % ln, fp, fsite, False, "with_const_width not evaluable: %s" % e, inc=True)
        return
    rng, bn = hist_roles(m, est)
    edges = {nm: v for nm, v in zip(h.names, h.fields)}[rng].elems
    se = SignEnv(m, {})
    bad = None
    for i in range(1, len(edges) - 1):
        a_, b_ = edges[i], edges[i + 1]
        # running sum: edge[i+1] = edge[i] + (something >= 0)
        if b_[0] == "add" and ((b_[1] == a_ and se.of(b_[2]) in ("pos", "nonneg", "zero")) or (b_[2] == a_ and se.of(b_[1]) in ("pos", "nonneg", "zero"))):
            continue
        r = mono_pair(m, se, a_, b_)
        if r not in ("inc", "const"):
            bad = (i, r)
            break
    # edge 0 is exactly `start`; edge 1 >= start needs step*1 >= 0
    e1 = edges[1]
    first_ok = edges[0] == a and se.of(F.mk("sub", e1, a)) in ("pos", "nonneg", "zero") if e1[0] != "add" else (
        edges[0] == a and (e1[1] == a and se.of(e1[2]) in ("pos", "nonneg", "zero") or e1[2] == a and se.of(e1[1]) in ("pos", "nonneg", "zero")))
    ok = bad is None and first_ok
    # R-ULPS: "within a few ulps" needs a bounded number of roundings per edge, independent of the index
    worst = max((op_count(e) for e in edges), default=0)
    ctx.ob("R-ULPS", "const-width:bounded-roundings:LEN=%d" % ln, fp, fsite, worst <= 5,
           "every edge is computed from start and end by at most %d rounded operations%s" % (
               worst, "" if worst <= 5 else " — the count grows with the bin index, so rounding errors accumulate beyond a few ulps (e.g. edge %d = %s)" % (
                   len(edges) - 1, F.show(edges[-1])[:140])))
    ctx.ob("R-MONO", "const-width:non-decreasing:LEN=%d" % ln, fp, fsite, ok,
           "every edge is obtained from the bin index by operations that are each non-decreasing in the index (IEEE rounding is monotone), "
           "so the %d edges are non-decreasing for start < end" % len(edges) if ok else
           "edges are not monotone by construction: %s — e.g. edge = %s; rounding can make consecutive edges decrease (find() then relies on an unsorted array)" % (
               "the bin index enters edge %d through operations of opposite monotonicity" % bad[0] if bad else "edge 1 is not provably >= start",
               F.show(edges[min(2, len(edges) - 1)])[:160]),
           sample={"edge2": F.show(edges[min(2, len(edges) - 1)])[:200]})


def r_accessors(ctx, db, est, ln, consts=None):
    """range_min / range_max / ranges() / bins() are exact views of the stored edges and counts"""
    m = Machine(db, [], Config(release=True, consts=consts or {}))
    a, ea, ba, rng, bn = hist_state(m, est, "self")
    ref = VRef(a, (), False)
    # the limits are the first and the last stored edge as they are: also for the (legal) histogram
    # `with_const_width(start, end)` with start > end, whose edges descend and which find() treats as empty
    m2 = Machine(db, [], Config(release=True, consts=consts or {}))
    a2, ea2, _ba2, _r2, _b2 = hist_state(m2, est, "self", strict=False, sorted_edges=False)
    for mm, rr, edges, tag in ((m, ref, ea, ""), (m2, VRef(a2, (), False), ea2, ":any-edge-order")):
        for name, want in (("range_min", edges[0]), ("range_max", edges[-1])):
            fp = est.m(name, None)
            if fp is None:
                ctx.floor("%s::%s present" % (est.path, name), 0, 1)
                continue
            try:
                got = call(mm, fp, [rr])
            except (PathEnd, Unsupported) as e:
                ctx.ob("R-IDENT", "%s%s:LEN=%d" % (name, tag, ln), fp, R.fn_site(db, fp), False, "%s: %s" % (name, e), inc=True)
                continue
            ctx.ob("R-IDENT", "%s%s:LEN=%d" % (name, tag, ln), fp, R.fn_site(db, fp), got == want, "%s() returns %s (stored edge %s)" % (name, show_val(got)[:40], show_val(want)[:40]))
    for name, want in (("ranges", ea), ("bins", ba)):
        fp = est.m(name, None) or est.m(name, "traits::Histogram")
        if fp is None:
            ctx.floor("%s::%s present" % (est.path, name), 0, 1)
            continue
        try:
            r = call(m, fp, [ref])
            els = [m.read_loc(r.cell, r.path + (i,)) for i in range(r.lo, r.hi)] if isinstance(r, VRef) and r.lo is not None else None
        except (PathEnd, Unsupported) as e:
            els = None
        ok = els is not None and len(els) == len(want) and all(R.same(x, y) for x, y in zip(els, want))
        ctx.ob("R-IDENT", "%s:LEN=%d" % (name, ln), fp, R.fn_site(db, fp), ok, "%s() is %s" % (name, "exactly the stored array" if ok else "not the stored array"))
