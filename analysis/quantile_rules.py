"""Rules for Quantile (C05, C07, C15).

The reference is the P-square step of Jain & Chlamtac (1985) as quoted by property C05 (DESIGN
Appendix B.2), written here once as a *specification over abstract states*: it uses the same
abstract domains as the partial evaluator (order store for float comparisons, affine integers),
so for every abstract path of the implementation the specification is evaluated under the same
facts and the two final states are compared (integers exactly, heights as rational functions).
"""
import fnode as F
from lin import Lin, simp, INF
from machine import (Machine, Config, Cell, VStruct, VTuple, VArray, VRef, VOpaque, deep, explore, is_float,
                     is_int, is_cond, PathEnd, Unsupported, SYM_HI)
from scen import (Est, Run, Alg, leaves, leaf_map, show_val, call, run_entry, site, is_debug_only, pc_show,
                  pc_equalities)
import rules as R
import pit

QPATH = "quantile::Quantile"


def fields(v):
    """name -> value for the Quantile struct (heights, positions, desired positions, increments)"""
    return {n: x for n, x in zip(v.names, v.fields)}


def role_fields(db, est):
    """identify the four arrays by their role, from `new(p)`: heights (all zero), positions
    ([1,2,3,4,0] integers), desired positions (m: 1,..,5) and increments (dm: 0,..,1)."""
    m = Machine(db, [], Config(release=True))
    p = F.atom("p")
    m.order.set_nan(p, False)
    m.order.assume("Ge", p, F.ZERO, True)
    m.order.assume("Le", p, F.ONE, True)
    v = call(m, est.new, [p])
    roles = {}
    for name, x in zip(v.names, v.fields):
        if not isinstance(x, VArray) or len(x.elems) != 5:
            continue
        e = x.elems
        if all(is_int(t) for t in e):
            roles["n"] = name
        elif all(is_float(t) and F.is_zero(t) for t in e):
            roles["q"] = name
        elif is_float(e[0]) and F.is_lit(e[0]) and F.litval(e[0]) == 1.0 and F.is_lit(e[4]) and F.litval(e[4]) == 5.0:
            roles["m"] = name
        elif is_float(e[0]) and F.is_zero(e[0]) and F.is_lit(e[4]) and F.litval(e[4]) == 1.0:
            roles["dm"] = name
    return roles, v


def sym_state(m, est, roles, nmin=5, sorted_q=True, name="self"):
    """abstract state with at least `nmin` observations: heights non-NaN and sorted, positions and
    the count symbolic"""
    v = m.sym_value(est.ty(), name, None, None, None)
    fs = fields(v)
    q = fs[roles["q"]].elems
    for x in q:
        m.order.set_nan(x, False)
    if sorted_q:
        for a, b in zip(q, q[1:]):
            m.order.assume("Le", a, b, True)
    n = fs[roles["n"]].elems
    # count >= nmin
    for t in n[:4]:
        (s, _), = t.terms.items()
        m.ienv.declare(s, 0, 2**40)
    cnt = n[4]
    (s, _), = cnt.terms.items()
    m.ienv.declare(s, nmin, 2**40)
    for x in fs[roles["m"]].elems + fs[roles["dm"]].elems:
        m.order.set_nan(x, False)
    return Cell(v, root=name)


class SpecFork(Exception):
    pass


def spec_step(m, st, roles, x):
    """P-square step on an abstract state (dict of lists), per C05 / Jain & Chlamtac.  All float
    comparisons go through the machine's order facts.  Returns the new state."""
    q = list(st["q"])
    n = [simp(t) for t in st["n"]]
    mm = list(st["m"])
    dm = list(st["dm"])

    def lt(a, b):
        return spec_truth(m, "Lt", a, b)

    def ilt(a, b):
        a, b = simp(a), simp(b)
        if isinstance(a, int) and isinstance(b, int):
            return a < b
        return m.truth(("icmp", "Lt", a, b), None, "spec")

    if lt(x, q[0]):
        q[0] = x
        k = 1
    else:
        k = 4
        for i in range(1, 5):
            if lt(x, q[i]):
                k = i
                break
        if lt(q[4], x):
            q[4] = x
    for i in range(k, 5):
        n[i] = simp(Lin.lift(n[i]) + 1)
    for i in range(5):
        mm[i] = F.mk("add", mm[i], dm[i], m.fctx)
    for i in range(1, 4):
        d = F.mk("sub", mm[i], F.i2f(n[i]), m.fctx)
        up = spec_truth(m, "Ge", d, F.ONE) and ilt(1, simp(Lin.lift(n[i + 1]) - Lin.lift(n[i])))
        dn = False
        if not up:
            dn = spec_truth(m, "Le", d, F.lit(-1.0)) and ilt(simp(Lin.lift(n[i - 1]) - Lin.lift(n[i])), -1)
        if up or dn:
            s = 1 if up else -1
            sf = F.lit(float(s))

            def f(e):
                return F.i2f(simp(e))
            a = f(Lin.lift(n[i]) - Lin.lift(n[i - 1]) + s)
            b = F.mk("sub", q[i + 1], q[i], m.fctx)
            c = f(Lin.lift(n[i + 1]) - Lin.lift(n[i]))
            d1 = f(Lin.lift(n[i + 1]) - Lin.lift(n[i]) - s)
            e1 = F.mk("sub", q[i], q[i - 1], m.fctx)
            g = f(Lin.lift(n[i]) - Lin.lift(n[i - 1]))
            tot = f(Lin.lift(n[i + 1]) - Lin.lift(n[i - 1]))
            para = F.mk("add", q[i], F.mk("mul", F.mk("div", sf, tot, m.fctx),
                                          F.mk("add", F.mk("div", F.mk("mul", a, b, m.fctx), c, m.fctx),
                                               F.mk("div", F.mk("mul", d1, e1, m.fctx), g, m.fctx), m.fctx), m.fctx), m.fctx)
            if lt(q[i - 1], para) and lt(para, q[i + 1]):
                q[i] = para
            else:
                j = i + s
                lin = F.mk("add", q[i], F.mk("div", F.mk("mul", sf, F.mk("sub", q[j], q[i], m.fctx), m.fctx),
                                             f(Lin.lift(n[j]) - Lin.lift(n[i])), m.fctx), m.fctx)
                # Lemma (over the reals): for a <= b and an integer d with |d| >= 1 the linear step
                # a + (b - a)/|d| lies in [a, b].  The guard gives |n_j - n_i| > 1; a <= b is asked of
                # the order store.  The facts are recorded for the sortedness argument (R-SORTED).
                lo, hi = (q[i], q[j]) if s == 1 else (q[j], q[i])
                dn_ = simp(Lin.lift(n[j]) - Lin.lift(n[i]))
                far = (isinstance(dn_, int) and abs(dn_) >= 1) or m.ienv.cmp("Ge" if s == 1 else "Le", dn_, s) is True
                if far and m.order.decide("Le", lo, hi) is True:
                    try:
                        m.order.set_nan(lin, False)
                        m.order.assume("Le", lo, lin, True)
                        m.order.assume("Le", lin, hi, True)
                    except Exception:
                        pass
                q[i] = lin
            n[i] = simp(Lin.lift(n[i]) + s)
    sorted_pairs = []
    for i in range(4):
        try:
            sorted_pairs.append(m.order.decide("Le", q[i], q[i + 1]) is True)
        except Exception:
            sorted_pairs.append(False)
    return {"q": q, "n": n, "m": mm, "dm": dm, "sorted": sorted_pairs}


def spec_truth(m, op, a, b):
    """decide a specification comparison from the path's facts.  When the order store cannot decide
    it, look for a comparison the implementation already made on operands that are the same
    rational functions (so a refactored but equivalent expression does not make the specification
    fork); only then fork."""
    from order import TRUTH
    d = m.order.decide(op, a, b)
    if d is not None:
        return d
    for e in m.pc:
        if e[0] != "fcmp":
            continue
        _, op2, a2, b2, t2, _sp = e
        for (x, y, flip) in ((a2, b2, False), (b2, a2, True)):
            if (x == a or same_fn(m, x, a)) and (y == b or same_fn(m, y, b)):
                # the implementation established (x op2 y) == t2; transfer it to (a, b)
                try:
                    if flip:
                        m.order.assume(op2, b, a, t2)
                    else:
                        m.order.assume(op2, a, b, t2)
                except Exception:
                    continue
                d = m.order.decide(op, a, b)
                if d is not None:
                    return d
    return m.truth(("fcmp", op, a, b), None, "spec")


def same_fn(m, x, y):
    if x == y:
        return True
    if F.is_lit(x) or F.is_lit(y):
        return False
    key = (x, y)
    cache = getattr(m, "_samefn", None)
    if cache is None:
        cache = m._samefn = {}
    r = cache.get(key)
    if r is None:
        if F.atoms(x) != F.atoms(y):
            r = False
        else:
            try:
                r, _ = pit.identical([("", x, y)], seed=11, points=3, int_bounds=R._pit_bounds(m), squares=False)
            except Exception:
                r = False
        cache[key] = r
    return r


def state_of(v, roles):
    fs = fields(v)
    return {r: list(fs[roles[r]].elems) for r in ("q", "n", "m", "dm")}


def r_p2_step(ctx, db, est, roles, only=None, rule="R-P2", label="", max_paths=6000, sorted_rule=False):
    """for every abstract path of add() on a state with >= 5 observations, the final state equals
    the specification step.  `only`: restrict the comparison to some (role, index) leaves."""
    addp = est.add
    fsite = R.fn_site(db, addp)

    def setup(m):
        cell = sym_state(m, est, roles, 5)
        x = F.atom("x")
        m.order.set_nan(x, False)
        init = state_of(deep(cell.v), roles)

        def thunk():
            call(m, addp, [VRef(cell, (), True), x])
            got = state_of(cell.v, roles)
            forks0 = len(m.trace)
            want = spec_step(m, init, roles, x)
            return got, want, len(m.trace) > forks0, init
        return thunk, {"self": (cell, deep(cell.v))}
    paths, stats = explore(db, setup, Config(release=True), max_paths)
    ctx.count_run(Run(addp, paths, stats, "p2-step"))
    nret = 0
    seen = set()
    for p in paths:
        pcs = pc_show(p.pc) or "unconditional"
        if p.status == "return":
            nret += 1
            got, want, spec_forked, init = p.ret
            m = p.machine
            problems = []
            fl_pairs = []
            for r in ("q", "n", "m", "dm"):
                for i in range(5):
                    if only and (r, i) not in only:
                        continue
                    a, b = got[r][i], want[r][i]
                    lab = "%s[%d]" % (roles[r], i)
                    if is_int(a) or is_int(b):
                        a2, b2 = simp(a), simp(b)
                        if not (is_int(a2) and is_int(b2) and (a2 == b2 or m.ienv.cmp("Eq", a2, b2) is True)):
                            problems.append(("position %s" % lab, show_val(a2), show_val(b2), what_changed(init, r, i, a2)))
                    elif is_float(a) and is_float(b):
                        if a != b:
                            fl_pairs.append((lab, a, b))
                    else:
                        problems.append((lab, show_val(a), show_val(b), ""))
            if not problems and fl_pairs:
                try:
                    eqs = pc_equalities(p.pc)
                    prs = [(l, F.subst(a, eqs), F.subst(b, eqs)) for l, a, b in fl_pairs] if eqs else fl_pairs
                    ok, diff = pit.identical(prs, seed=5, points=3, int_bounds=R._pit_bounds(m), squares=False)
                    if not ok:
                        lab = diff[0]
                        ga = [a for l, a, b in fl_pairs if l == lab][0]
                        wa = [b for l, a, b in fl_pairs if l == lab][0]
                        problems.append(("height/position %s" % lab, show_val(ga)[:200], show_val(wa)[:200], ""))
                except pit.NeedSymbolic as e:
                    ctx.ob(rule, "step:undecided", addp, fsite, False, "identity not decidable: %s" % e, inc=True)
                    continue
            if problems:
                k = tuple(pr[0] for pr in problems)
                key = "step%s:%s" % (label, problems[0][0].split()[-1] if problems else "")
                ctx.ob(rule, key, addp, fsite, False,
                       "P-square step deviates from the algorithm: %s is %s, specified %s%s [path: %s]" % (
                           problems[0][0], problems[0][1], problems[0][2],
                           (" (" + problems[0][3] + ")") if problems[0][3] else "", pcs),
                       sample={"leaf": problems[0][0], "got": problems[0][1], "spec": problems[0][2], "path_condition": pcs})
            else:
                ctx.ob(rule, "step" + label, addp, fsite, True,
                       "final markers equal the specified step (%d non-identical height leaves compared as rational functions) [path: %s]" % (len(fl_pairs), pcs),
                       sample={"path_condition": pcs})
                if sorted_rule:
                    shape_bad = linear_shape_problem(m, init, got)
                    if shape_bad:
                        ctx.ob("R-SORTED", "linear-step-shape" + label, addp, fsite, False,
                               "marker %d is moved to %s, which is neither a prediction tested to lie strictly between its neighbours nor of the form "
                               "height ± (non-negative term towards the neighbour): its rounding can place the marker beyond a tied neighbour, "
                               "so heights need not stay non-decreasing / within [min, max] [path: %s]" % (shape_bad[0], show_val(shape_bad[1])[:140], pcs))
                    sp_ = want.get("sorted", [])
                    oks = all(sp_) and len(sp_) == 4
                    ctx.ob("R-SORTED", "heights-non-decreasing" + label, addp, fsite, oks,
                           ("after the step the marker heights are non-decreasing (extremes are min/max, accepted parabolic predictions lie strictly "
                            "between their neighbours, linear steps between the marker and its neighbour) [path: %s]" % pcs) if oks else
                           "sortedness of the heights after the step is not established for pairs %s [path: %s]" % ([i for i, o in enumerate(sp_) if not o], pcs),
                           inc=not oks)
        elif p.status == "panic":
            if is_debug_only(p.info.get("span") or {}):
                continue
            ctx.ob("R-PANIC", "step-panic:" + str(p.info.get("kind")), addp, fsite, False,
                   "add panics on a state with >= 5 finite observations: %s at %s [path: %s]" % (
                       p.info.get("kind"), site(p.info.get("span")), pcs))
        else:
            ctx.ob(rule, "step" + label, addp, fsite, False, str(p.info.get("why")), inc=True)
    ctx.extra["p2_paths"] = nret
    return nret


def linear_shape_problem(m, init, got):
    """float-level side condition of the sortedness argument: an interior marker height that
    changed is either a value the implementation itself compared strictly between its live
    neighbours, or `old_height + T` / `old_height - T` with T provably directed towards the
    neighbour (so that monotone rounding keeps it between them)"""
    from sign import SignEnv
    se = SignEnv(m, {})
    for i in (1, 2, 3):
        g, old = got["q"][i], init["q"][i]
        if g == old:
            continue
        try:
            between = (m.order.decide("Lt", got["q"][i - 1], g) is True and m.order.decide("Lt", g, init["q"][i + 1]) is True)
        except Exception:
            between = False
        if between:
            continue
        ok = False
        if g[0] == "add" and old in (g[1], g[2]):
            ok = True
        elif g[0] == "sub" and g[1] == old:
            ok = True
        if not ok:
            return (i, g)
    return None


def what_changed(init, r, i, after):
    b = simp(init[r][i])
    try:
        d = simp(Lin.lift(after) - Lin.lift(b))
        return "entry value %s, change %s" % (show_val(b), show_val(d))
    except Exception:
        return ""


def r_p2_init(ctx, db, est, roles):
    """constructor and the first five observations: m, dm as functions of p; after the fifth
    observation heights are the sorted first five, positions 1..5"""
    newp = est.new
    fsite = R.fn_site(db, newp)

    def setup(m):
        p = F.atom("p")
        m.order.set_nan(p, False)
        m.order.assume("Ge", p, F.ZERO, True)
        m.order.assume("Le", p, F.ONE, True)

        def thunk():
            v = call(m, newp, [p])
            return state_of(v, roles), p
        return thunk, {}
    paths, stats = explore(db, setup, Config(release=True), 50)
    ctx.count_run(Run(newp, paths, stats, "new"))
    for pth in paths:
        if pth.status != "return":
            ctx.ob("R-LAW", "L9:init", newp, fsite, False, "new(p) with p in [0,1]: %s %s" % (pth.status, pth.info.get("kind")),
                   inc=pth.status == "inconclusive")
            continue
        st, p = pth.ret
        two, four = F.lit(2.0), F.lit(4.0)
        want_m = [F.ONE, F.mk("add", F.ONE, F.mk("mul", two, p)), F.mk("add", F.ONE, F.mk("mul", four, p)),
                  F.mk("add", F.lit(3.0), F.mk("mul", two, p)), F.lit(5.0)]
        want_dm = [F.ZERO, F.mk("div", p, two), p, F.mk("div", F.mk("add", F.ONE, p), two), F.ONE]
        pairs = [("%s[%d]" % (roles["m"], i), st["m"][i], want_m[i]) for i in range(5)] + \
                [("%s[%d]" % (roles["dm"], i), st["dm"][i], want_dm[i]) for i in range(5)]
        ok, diff = pit.identical(pairs, seed=3, points=3, squares=False)
        ctx.ob("R-LAW", "L9:init-desired-positions", newp, fsite, ok,
               "desired positions / increments after new(p) %s" % ("equal [1,1+2p,1+4p,3+2p,5] and [0,p/2,p,(1+p)/2,1]" if ok else "differ at %s: %s vs %s" % (diff[0], diff[2], diff[3])), d7=True)
        npos = [simp(t) for t in st["n"]]
        ctx.ob("R-P2", "init-positions", newp, fsite, npos == [1, 2, 3, 4, 0],
               "positions after new(p) are %s (expected [1,2,3,4,0]: markers 1..4 and a zero count)" % npos)
        ctx.ob("R-IDENT", "p-readback-slot", newp, fsite, st["dm"][2] == p, "increment of the middle marker is exactly p")

    # five observations
    addp = est.add

    def setup2(m):
        alg = Alg(m, est)
        p = F.atom("p")
        m.order.set_nan(p, False)
        m.order.assume("Ge", p, F.ZERO, True)
        m.order.assume("Le", p, F.ONE, True)
        xs = [F.atom("x%d" % i) for i in range(5)]
        for x in xs:
            m.order.set_nan(x, False)

        def thunk():
            s = alg.new("s", p)
            for x in xs:
                alg.add(s, x)
            return state_of(s.v, roles), xs
        return thunk, {}
    paths, stats = explore(db, setup2, Config(release=True), 200)
    ctx.count_run(Run(addp, paths, stats, "first-five"))
    for pth in paths:
        if pth.status != "return":
            if pth.status == "panic" and is_debug_only(pth.info.get("span") or {}):
                continue
            ctx.ob("R-P2", "first-five", addp, R.fn_site(db, addp), False, "first five observations: %s %s" % (pth.status, pth.info.get("kind") or pth.info.get("why")),
                   inc=pth.status == "inconclusive")
            continue
        st, xs = pth.ret
        okq = True
        for i, h in enumerate(st["q"]):
            if not (is_float(h) and h[0] == "fn" and h[1] == "sorted" and h[3] == i and set(h[4:]) == set(xs) and len(h[4:]) == 5):
                okq = False
        npos = [simp(t) for t in st["n"]]
        ctx.ob("R-P2", "first-five:sorted-heights", addp, R.fn_site(db, addp), okq,
               "after five observations the heights are %s" % ("the sorted first five observations" if okq else [show_val(h)[:60] for h in st["q"]]))
        ctx.ob("R-P2", "first-five:positions", addp, R.fn_site(db, addp), npos == [1, 2, 3, 4, 5],
               "positions after five observations are %s (expected [1,2,3,4,5])" % npos)


def outside_sorted_atoms(n, acc=None):
    """atoms of a residual that are NOT under a `sorted` node (arrival-order reads)"""
    if acc is None:
        acc = set()
    if not isinstance(n, tuple):
        return acc
    k = n[0]
    if k == "atom":
        acc.add(n[1])
    elif k == "fn":
        if n[1] == "sorted":
            return acc
        for a in n[2:]:
            if isinstance(a, tuple):
                outside_sorted_atoms(a, acc)
    elif k in ("add", "sub", "mul", "div", "neg"):
        for a in n[1:]:
            outside_sorted_atoms(a, acc)
    return acc


def small_state(m, est, roles, n, p_node, name="self"):
    """state after n in 1..4 observations (arrival order arbitrary): the first n heights are
    abstract non-NaN observations, the rest are the zeros new() wrote; count = n; p as given"""
    v = call(m, est.new, [p_node])
    fs = fields(v)
    obs = []
    for i in range(n):
        a = F.atom("o%d" % i)
        m.order.set_nan(a, False)
        fs[roles["q"]].elems[i] = a
        obs.append(a)
    fs[roles["n"]].elems[4] = n
    return Cell(v, root=name), obs


def spec_small(m, n, p, hs):
    """exact sample quantile per C07 on sorted heights hs (len n), p a literal in [0,1]"""
    import math
    pv = F.litval(p)
    di = n * pv - 1.0
    idx = math.ceil(di)
    if di == idx and idx >= 0 and idx < n - 1:
        return ("avg", int(idx), int(idx) + 1)
    idx = max(idx, 0)
    idx = min(int(idx), n - 1)
    return ("one", idx)


def r_small_quantile(ctx, db, est, roles, grid):
    """quantile() with 1..4 observations: reads only the sorted copy (R-TAINT); for every p of the
    grid the selected order statistic is the one C07 defines (R-QSMALL); indices stay in range"""
    qp = est.m("quantile", None)
    fsite = R.fn_site(db, qp)
    n_cases = 0
    for n in (1, 2, 3, 4):
        # (a) abstract p in [0,1]: taint and index range
        def setup(m, n=n):
            p = F.atom("p")
            m.order.set_nan(p, False)
            m.order.assume("Ge", p, F.ZERO, True)
            m.order.assume("Le", p, F.ONE, True)
            cell, obs = small_state(m, est, roles, n, p)

            def thunk():
                return call(m, qp, [VRef(cell, (), False)]), obs
            return thunk, {"self": (cell, deep(cell.v))}
        paths, stats = explore(db, setup, Config(release=True), 2000)
        ctx.count_run(Run(qp, paths, stats, "small-n%d" % n))
        for p in paths:
            pcs = pc_show(p.pc) or "unconditional"
            if p.status == "return":
                ret, obs = p.ret
                raw = outside_sorted_atoms(ret) if is_float(ret) else set()
                raw = {a for a in raw if a.startswith("o")}
                okt = not raw or n == 1
                # range: the result is an order statistic or the midpoint of two of them, hence within
                # [min, max] of the observations
                sn = sorted(all_sorted_nodes(ret), key=lambda t: t[3]) if is_float(ret) else []
                if n == 1:
                    inr = ret == obs[0]
                elif len(sn) == 1:
                    inr = ret == sn[0]
                elif len(sn) == 2:
                    A, B = F.atom("hA"), F.atom("hB")
                    try:
                        inr, _ = pit.identical([("mid", F.subst(ret, {sn[0]: A, sn[1]: B}), F.mk("div", F.mk("add", A, B), F.lit(2.0)))], seed=2, points=3, squares=False)
                    except pit.NeedSymbolic:
                        inr = False
                else:
                    inr = False
                ctx.ob("R-RANGE", "small-sample:within-min-max:n=%d" % n, qp, fsite, inr,
                       "returned value %s is %s" % (show_val(ret)[:80], "an order statistic or the midpoint of two: it lies between the smallest and largest observation" if inr
                                                    else "neither an order statistic nor a midpoint of two"))
                if is_float(ret):
                    import num_rules as NR
                    ov = NR.overflow_at_max(ret)
                    ctx.ob("R-MAG", "small-sample:no-overflow:n=%d" % n, qp, fsite, ov is None,
                           "no intermediate of the returned expression exceeds f64::MAX when every observation is finite" if ov is None else
                           "the intermediate %s reaches about 1e%.1f when the observations are as large as f64::MAX: quantile() returns an infinity "
                           "although the exact result lies between the observations" % (show_val(ov[0])[:120], ov[1]))
                if is_float(ret):
                    # R-UNDERFLOW: "exactly the sample quantile" / "within [min, max]" leave no absolute slack, and every
                    # finite observation (denormals too) is in the domain: at most one subnormal-rounding operation, in a
                    # monotone position (root, increment of a datum) or under a clamp between two observations
                    def _datum(x):
                        return isinstance(x, tuple) and (x[0] == "atom" or (x[0] == "fn" and x[1] == "sorted"))
                    core, clamp = ret, set()
                    while isinstance(core, tuple) and core[0] == "fn" and core[1] in ("min", "max") and len(core) == 4 and (_datum(core[2]) != _datum(core[3])):
                        clamp.add(core[1])
                        core = core[3] if _datum(core[2]) else core[2]
                    srcs = NR.underflow_sources(core, lambda a_: True)
                    if clamp == {"min", "max"} or not srcs:
                        oku, whyu = True, ("the value is clamped between two observations" if clamp == {"min", "max"} else "no operation of the returned expression can round a subnormal")
                    elif len(srcs) == 1:
                        r0 = core
                        while isinstance(r0, tuple) and r0[0] == "neg":
                            r0 = r0[1]
                        oku = r0 == srcs[0] or (r0[0] in ("add", "sub") and any(o == srcs[0] for o in r0[1:]))
                        whyu = "a single subnormal-rounding operation in a monotone position" if oku else None
                    else:
                        oku, whyu = False, None
                    if oku or len(srcs) >= 2:
                        ctx.ob("R-UNDERFLOW", "small-sample:subnormal-rounding", qp, fsite, oku,
                               ("n=%d: %s" % (n, whyu)) if oku else
                               "n=%d: the returned expression %s adds %d separately rounded products of an observation by a non-integer: for subnormal "
                               "observations each is rounded to a whole subnormal step, so two observations of 5e-324 give 0.0 — below the minimum, "
                               "and not the sample quantile" % (n, show_val(ret)[:90], len(srcs)), sample={"n": n, "sources": len(srcs)})
                    else:
                        ctx.ob("R-UNDERFLOW", "small-sample:subnormal-rounding", qp, fsite, False, "n=%d: undecided shape %s" % (n, show_val(ret)[:90]), inc=True)
                ctx.ob("R-TAINT", "small-sample:sorted-only:n=%d" % n, qp, fsite, okt,
                       ("returned height %s reads the arrival-order store (%s) instead of the sorted copy [path: %s]" % (show_val(ret)[:80], sorted(raw), pcs))
                       if not okt else "returned height %s derives from the sorted copy only [path: %s]" % (show_val(ret)[:80], pcs),
                       sample={"n": n, "value": show_val(ret)[:120]})
            elif p.status == "panic":
                if is_debug_only(p.info.get("span") or {}):
                    continue
                ctx.ob("R-IDX", "small-sample:index-in-range:n=%d" % n, qp, fsite, False,
                       "quantile() can panic with %d observations and p in [0,1]: %s at %s [path: %s]" % (n, p.info.get("kind"), site(p.info.get("span")), pcs))
            else:
                ctx.ob("R-TAINT", "small-sample:n=%d" % n, qp, fsite, False, str(p.info.get("why")), inc=True)
        # (b) grid of p: which order statistic
        for pv in grid:
            n_cases += 1

            def setup2(m, n=n, pv=pv):
                p = F.lit(pv)
                cell, obs = small_state(m, est, roles, n, p)

                def thunk():
                    return call(m, qp, [VRef(cell, (), False)]), obs
                return thunk, {}
            paths, stats = explore(db, setup2, Config(release=True, fold_inexact=True), 500)
            ctx.count_run(Run(qp, paths, stats, "grid"))
            for p in paths:
                if p.status != "return":
                    if p.status == "panic" and is_debug_only(p.info.get("span") or {}):
                        continue
                    ctx.ob("R-QSMALL", "n=%d,p=%r" % (n, pv), qp, fsite, False, "%s %s" % (p.status, p.info.get("kind") or p.info.get("why")),
                           inc=p.status == "inconclusive")
                    continue
                ret, obs = p.ret
                m = p.machine
                want = spec_small(m, n, F.lit(pv), None)
                ok = matches_order_stat(m, ret, want, obs, n)
                ctx.ob("R-QSMALL", "n=%d,p=%r" % (n, pv), qp, fsite, ok,
                       "quantile() with %d observations, p=%r returns %s; C07 selects %s" % (n, pv, show_val(ret)[:90], describe(want)),
                       sample={"n": n, "p": pv, "value": show_val(ret)[:120], "spec": describe(want)})
    return n_cases


def describe(w):
    if w[0] == "one":
        return "the order statistic of rank %d (0-based)" % w[1]
    return "the mean of ranks %d and %d" % (w[1], w[2])


def is_order_stat(v, i, obs, n):
    if n == 1 and v == obs[0]:
        return i == 0
    return (is_float(v) and v[0] == "fn" and v[1] == "sorted" and v[3] == i and len(v[4:]) == n and set(v[4:]) == set(obs[:n]))


def matches_order_stat(m, ret, want, obs, n):
    if not is_float(ret):
        return False
    if want[0] == "one":
        return is_order_stat(ret, want[1], obs, n)
    # 0.5*h[i] + 0.5*h[j]  (any arrangement equal as a rational function)
    sorted_nodes = sorted({x for x in all_sorted_nodes(ret)}, key=lambda t: t[3])
    if len(sorted_nodes) != 2:
        return False
    a, b = sorted_nodes
    if not (is_order_stat(a, want[1], obs, n) and is_order_stat(b, want[2], obs, n)):
        return False
    A, B = F.atom("hA"), F.atom("hB")
    r2 = F.subst(ret, {a: A, b: B})
    wantn = F.mk("div", F.mk("add", A, B), F.lit(2.0))
    ok, _ = pit.identical([("avg", r2, wantn)], seed=2, points=3, squares=False)
    return ok


def all_sorted_nodes(n, acc=None):
    if acc is None:
        acc = set()
    if not isinstance(n, tuple):
        return acc
    if n[0] == "fn" and n[1] == "sorted":
        acc.add(n)
        return acc
    if n[0] == "fn":
        for a in n[2:]:
            if isinstance(a, tuple):
                all_sorted_nodes(a, acc)
    elif n[0] in ("add", "sub", "mul", "div", "neg"):
        for a in n[1:]:
            all_sorted_nodes(a, acc)
    return acc


def r_quantile_ctor(ctx, db, est):
    """Quantile::new: every normal return carries 0 <= p <= 1 from a *release* assertion; inside
    the range it never panics"""
    newp = est.new
    fsite = R.fn_site(db, newp)

    def setup(m):
        p = F.atom("p")

        def thunk():
            call(m, newp, [p])
            return p
        return thunk, {}
    paths, stats = explore(db, setup, Config(release=True, finite=False), 100)
    ctx.count_run(Run(newp, paths, stats, "ctor"))
    nret = npanic = 0
    for pth in paths:
        pcs = pc_show(pth.pc) or "unconditional"
        if pth.status == "return":
            nret += 1
            p = pth.ret
            o = pth.machine.order
            ok = o.decide("Ge", p, F.ZERO) is True and o.decide("Le", p, F.ONE) is True and o.nan_status(p) is False
            ctx.ob("R-GUARD", "ctor:range-on-return", newp, fsite, ok,
                   "a normal return of new(p) %s [path: %s]" % ("implies 0 <= p <= 1 and p not NaN" if ok else "is possible with p outside [0,1] or NaN (release build)", pcs))
        elif pth.status == "panic":
            npanic += 1
        else:
            ctx.ob("R-GUARD", "ctor", newp, fsite, False, str(pth.info.get("why")), inc=True)
    ctx.ob("R-GUARD", "ctor:panics-outside", newp, fsite, npanic >= 1, "new(p) has %d panicking path(s) for p outside [0,1] / NaN" % npanic)

    def setup2(m):
        p = F.atom("p")
        m.order.set_nan(p, False)
        m.order.assume("Ge", p, F.ZERO, True)
        m.order.assume("Le", p, F.ONE, True)
        return (lambda: call(m, newp, [p])), {}
    paths, stats = explore(db, setup2, Config(release=False), 100)
    ctx.count_run(Run(newp, paths, stats, "ctor-in-range"))
    bad = [p for p in paths if p.status == "panic"]
    ctx.ob("R-PANIC", "ctor:no-panic-in-range", newp, fsite, not bad,
           "new(p) with 0 <= p <= 1 %s" % ("never panics" if not bad else "can panic: %s" % bad[0].info.get("kind")))


def r_count_small(ctx, db, est, roles):
    """the first four/five observations: each add stores the observation in the next free slot and
    increments the count exactly once"""
    addp = est.add
    fsite = R.fn_site(db, addp)
    for n in range(0, 5):
        def setup(m, n=n):
            p = F.atom("p")
            m.order.set_nan(p, False)
            m.order.assume("Ge", p, F.ZERO, True)
            m.order.assume("Le", p, F.ONE, True)
            if n == 0:
                cell = Cell(call(m, est.new, [p]), root="self")
                obs = []
            else:
                cell, obs = small_state(m, est, roles, n, p)
            x = F.atom("x")
            m.order.set_nan(x, False)

            def thunk():
                call(m, addp, [VRef(cell, (), True), x])
                return state_of(cell.v, roles), obs, x
            return thunk, {}
        paths, stats = explore(db, setup, Config(release=True), 300)
        ctx.count_run(Run(addp, paths, stats, "small-add"))
        for p in paths:
            if p.status != "return":
                if p.status == "panic" and is_debug_only(p.info.get("span") or {}):
                    continue
                ctx.ob("R-COUNT", "add:+1:n=%d" % n, addp, fsite, False, "add with %d stored observations: %s %s" % (n, p.status, p.info.get("kind") or p.info.get("why")),
                       inc=p.status == "inconclusive")
                continue
            st, obs, x = p.ret
            cnt = simp(st["n"][4])
            ctx.ob("R-COUNT", "add:+1:n=%d" % n, addp, fsite, cnt == n + 1, "count after the %d-th add is %s (expected %d)" % (n + 1, cnt, n + 1))
            if n < 4:
                stored = st["q"][:n + 1]
                ok = stored == obs + [x]
                ctx.ob("R-P2", "store-observation:n=%d" % n, addp, fsite, ok,
                       "observation %d is stored as given (%s)" % (n + 1, [show_val(t)[:20] for t in stored]))


def r_middle_marker(ctx, db, est, roles):
    """with >= 5 observations quantile() (and estimate()) is exactly the middle marker's height"""
    for name, fp in (("quantile", est.m("quantile", None)), ("estimate", est.m("estimate", "traits::Estimate"))):
        if fp is None:
            ctx.floor("Quantile::%s present" % name, 0, 1)
            continue

        def setup(m, fp=fp):
            cell = sym_state(m, est, roles, 5)
            want = state_of(cell.v, roles)["q"][2]
            return (lambda: (call(m, fp, [VRef(cell, (), False)]), want)), {}
        paths, stats = explore(db, setup, Config(release=True), 100)
        ctx.count_run(Run(fp, paths, stats, "middle"))
        for p in paths:
            if p.status == "return":
                got, want = p.ret
                ctx.ob("R-IDENT", "%s:middle-marker" % name, fp, R.fn_site(db, fp), got == want,
                       "%s() with >= 5 observations returns %s (middle marker height: %s)" % (name, show_val(got)[:60], show_val(want)[:40]))
            elif p.status == "panic" and is_debug_only(p.info.get("span") or {}):
                continue
            else:
                ctx.ob("R-IDENT", "%s:middle-marker" % name, fp, R.fn_site(db, fp), False, "%s: %s %s" % (name, p.status, p.info.get("kind") or p.info.get("why")),
                       inc=p.status == "inconclusive")
