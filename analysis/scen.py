"""Scenario helpers: discover the API of an estimator type from the facts, build abstract entry
states, run methods through the partial evaluator and summarise path results."""
import fnode as F
from lin import Lin, simp
from machine import (Machine, Config, Cell, VStruct, VTuple, VArray, VRef, VOpaque, VModel, deep, explore,
                     is_float, is_int, is_cond, PathEnd, Unsupported, SYM_HI)

ESTIMATE = "traits::Estimate"
MERGE = "traits::Merge"


class Est:
    """An estimator type and its methods, discovered from impls (public API names are the anchors)."""

    def __init__(self, db, adt_path):
        self.db = db
        adt_path = db.canon(adt_path)
        self.path = adt_path
        self.adt = db.adts.get(adt_path)
        self.methods = {}
        for (tr, name), p in db.methods_of(adt_path).items():
            self.methods.setdefault(name, {})[tr] = p
        self.name = adt_path.split("::")[-1]

    def exists(self):
        return self.adt is not None

    def m(self, name, trait=None):
        d = self.methods.get(name)
        if not d:
            return None
        if trait is not None:
            return d.get(self.db.canon(trait))
        if None in d:
            return d[None]
        if len(d) == 1:
            return next(iter(d.values()))
        return None

    @property
    def add(self):
        return self.m("add", ESTIMATE) or self.m("add", None)

    @property
    def merge(self):
        return self.m("merge", MERGE)

    @property
    def new(self):
        return self.m("new", None)

    def ty(self):
        return {"k": "adt", "path": self.path, "args": [], "s": self.path}

    def accessors(self):
        """inherent &self methods returning f64/u64/bool (statistic accessors)"""
        out = {}
        for name, d in self.methods.items():
            p = d.get(None)
            if not p:
                continue
            f = self.db.fns.get(p)
            if not f or f["arg_count"] < 1 or f["vis"] != "pub":
                continue
            t1 = f["locals"][1]["ty"]
            if not (t1["k"] == "ref" and not t1["mut"]):
                continue
            out[name] = p
        return out


def leaves(v, prefix=""):
    """(path, leaf) pairs of a value tree; leaves are floats, ints, conds or opaque values"""
    if isinstance(v, VStruct):
        for i, x in enumerate(v.fields):
            nm = v.names[i] if v.names and i < len(v.names) else str(i)
            yield from leaves(x, "%s.%s" % (prefix, nm) if prefix else nm)
    elif isinstance(v, VTuple):
        for i, x in enumerate(v.fields):
            yield from leaves(x, "%s.%d" % (prefix, i) if prefix else str(i))
    elif isinstance(v, VArray):
        for i, x in enumerate(v.elems):
            yield from leaves(x, "%s[%d]" % (prefix, i))
    else:
        yield prefix, v


def leaf_map(v, prefix=""):
    return dict(leaves(v, prefix))


def show_val(v):
    if is_float(v):
        return F.show(v)
    if isinstance(v, Lin):
        return v.show()
    if isinstance(v, (VStruct, VTuple, VArray)):
        return "{" + ", ".join("%s=%s" % (k, show_val(x)) for k, x in leaves(v)) + "}"
    return repr(v)


class Run:
    """results of exploring one entry under one scenario"""

    def __init__(self, fn, paths, stats, label=""):
        self.fn = fn
        self.paths = paths
        self.stats = stats
        self.label = label

    def returns(self):
        return [p for p in self.paths if p.status == "return"]

    def panics(self):
        return [p for p in self.paths if p.status == "panic"]

    def inconclusive(self):
        return [p for p in self.paths if p.status == "inconclusive" or p.inconclusive is not None]


def sym_self(m, est_or_ty, root="self", int_bounds=None, int_min=None):
    ty = est_or_ty.ty() if isinstance(est_or_ty, Est) else est_or_ty
    v = m.sym_value(ty, root, None, int_bounds, int_min)
    c = Cell(v, root=root)
    return c


def call(m, fnpath, args):
    f = m.db.fns.get(fnpath)
    if f is None:
        raise Unsupported("function %s not in facts" % fnpath)
    return m.call_local(f, args, None)


def run_entry(db, fnpath, build, cfg=None, max_paths=20000, label=""):
    """build(m) -> (args, roots): abstract arguments and the dict of named root cells"""
    def setup(m):
        args, roots = build(m)
        snap = {k: (c, deep(c.v)) for k, c in roots.items()}
        return (lambda: call(m, fnpath, args)), snap
    paths, stats = explore(db, setup, cfg, max_paths)
    return Run(fnpath, paths, stats, label)


def final_leaves(p, root="self"):
    cell, init = p.roots[root]
    return leaf_map(cell.v)


def init_leaves(p, root="self"):
    cell, init = p.roots[root]
    return leaf_map(init)


def changed_leaves(p, root="self"):
    a, b = init_leaves(p, root), final_leaves(p, root)
    out = {}
    for k in set(a) | set(b):
        if k not in a or k not in b or not same(a[k], b[k]):
            out[k] = (a.get(k), b.get(k))
    return out


def same(a, b):
    a, b = simp(a), simp(b)
    if isinstance(a, Lin) or isinstance(b, Lin):
        return isinstance(a, Lin) and isinstance(b, Lin) and a == b
    if isinstance(a, (VOpaque, VModel)) or isinstance(b, (VOpaque, VModel)):
        return a is b
    return type(a) == type(b) and a == b


def site(span, repo=None):
    if not span:
        return "?"
    s = span.get("sp", "?")
    if span.get("cs") and ("/library/" in s or "/rustlib/" in s):
        s = span["cs"]   # inside a std macro: report the expansion site in the crate
    i = s.find("/src/")
    if i >= 0:
        s = s[i + 1:]
    return s


def macro_names(span):
    return [m.split(":", 1)[1].split("::")[-1] for m in (span.get("mx") or []) if m.startswith("macro:")]


def is_debug_only(span):
    return any(n.startswith("debug_assert") for n in macro_names(span))


def pc_show(pc):
    out = []
    for e in pc:
        k = e[0]
        if k == "fcmp":
            _, op, a, b, t, sp = e
            out.append("%s(%s %s %s)" % ("" if t else "!", F.show(a), op, F.show(b)))
        elif k == "icmp":
            _, op, a, b, t, sp = e
            sa = a.show() if isinstance(a, Lin) else str(a)
            sb = b.show() if isinstance(b, Lin) else str(b)
            out.append("%s(%s %s %s)" % ("" if t else "!", sa, op, sb))
        elif k == "isnan":
            out.append("%sisnan(%s)" % ("" if e[2] else "!", F.show(e[1])))
        elif k == "ovf":
            out.append("%soverflow(%s)" % ("" if e[2] else "!", e[1]))
        elif k == "bopq":
            out.append("%s?%s" % ("" if e[2] else "!", e[1]))      # an unmodelled condition
    return " & ".join(out)


# estimator path -> callable(machine, cell): domain facts every abstract state of that type gets
STATE_ASSUME = {}


class Alg:
    """API algebra on one machine: build states and apply the estimator's own operations to them."""

    def __init__(self, m, est):
        self.m = m
        self.est = est
        self.db = m.db
        self.k = 0
        self.state_assume = STATE_ASSUME.get(est.path)

    def sym(self, name, nmin=1, bounds=None):
        """abstract state named `name`; every integer leaf (sample count) is >= nmin"""
        c = Cell(self.m.sym_value(self.est.ty(), name, None, bounds, nmin), root=name)
        if self.state_assume is not None:
            self.state_assume(self.m, c)
        return c

    def new(self, name="new", *args):
        v = call(self.m, self.est.new, list(args))
        return Cell(v, root=name)

    def clone(self, cell, name=None):
        return Cell(deep(cell.v), root=name or (cell.root + "'"))

    def add(self, cell, *vals):
        call(self.m, self.est.add, [VRef(cell, (), True)] + list(vals))
        return cell

    def merge(self, cell, other):
        call(self.m, self.est.merge, [VRef(cell, (), True), VRef(other, (), False)])
        return cell

    def acc(self, cell, name, *args):
        p = self.est.m(name, None) or self.est.m(name)
        if p is None:
            raise Unsupported("no accessor %s on %s" % (name, self.est.path))
        return call(self.m, p, [VRef(cell, (), False)] + list(args))


def pc_equalities(pc):
    """atom := node substitutions implied by `==` path conditions"""
    mp = {}
    for e in pc:
        if e[0] == "fcmp" and e[1] == "Eq" and e[4] is True:
            a, b = e[2], e[3]
            if a[0] == "atom" and a not in mp:
                mp[a] = b
            elif b[0] == "atom" and b not in mp:
                mp[b] = a
        elif e[0] == "fcmp" and e[1] == "Ne" and e[4] is False:
            a, b = e[2], e[3]
            if a[0] == "atom" and a not in mp:
                mp[a] = b
            elif b[0] == "atom" and b not in mp:
                mp[b] = a
    return mp
