"""Pretty printer for the fact files (debugging aid)."""
import json, sys

def place(p):
    s = "_%d" % p["l"]
    for e in p["p"]:
        if e == "deref": s = "(*%s)" % s
        elif isinstance(e, dict) and "f" in e: s += "." + e.get("name", str(e["f"]))
        elif isinstance(e, dict) and "i" in e: s += "[_%d]" % e["i"]
        elif isinstance(e, dict) and "ci" in e: s += "[%s%d of %d]" % ("-" if e["from_end"] else "", e["ci"], e["min"])
        elif isinstance(e, dict) and "dc" in e: s = "(%s as %s)" % (s, e["name"])
        elif isinstance(e, dict) and "sub_from" in e: s += "[%d..%s%d]" % (e["sub_from"], "-" if e["from_end"] else "", e["sub_to"])
        else: s += ".<%s>" % e
    return s

def const(c):
    if "fnref" in c:
        f = c["fnref"]
        r = f.get("resolved")
        return "fn %s%s" % (f["full"], (" => " + r) if r and r != f["fn"] else "")
    for k in ("int", "uint", "bool", "str", "char"):
        if k in c: return "%s_%s" % (repr(c[k]) if k == "str" else c[k], c["ty"]["s"])
    if "fbits" in c:
        import struct
        b = int(c["fbits"], 16)
        return "%r_f64" % struct.unpack("<d", struct.pack("<Q", b))[0]
    if "tyconst" in c: return "tyconst(%s)" % json.dumps(c["tyconst"])
    return "const(%s)" % c.get("dbg", "?")

def operand(o):
    if "cp" in o: return place(o["cp"])
    if "mv" in o: return "move " + place(o["mv"])
    if "c" in o: return const(o["c"])
    return str(o)

def rvalue(r):
    k = r["k"]
    if k == "use": return operand(r["op"])
    if k == "repeat": return "[%s; %s]" % (operand(r["op"]), json.dumps(r["len"]))
    if k == "ref": return "&%s%s" % ("mut " if r["mut"] else "", place(r["place"]))
    if k == "cast": return "%s as %s (%s)" % (operand(r["op"]), r["ty"]["s"], r["kind"])
    if k == "bin": return "%s(%s, %s)" % (r["op"], operand(r["a"]), operand(r["b"]))
    if k == "un": return "%s(%s)" % (r["op"], operand(r["a"]))
    if k == "discr": return "discriminant(%s)" % place(r["place"])
    if k == "aggr":
        nm = r["agg"]
        if nm == "adt": nm = "%s::%s" % (r["path"], r["variant_name"])
        if nm == "closure": nm = "closure " + r["path"]
        return "%s{%s}" % (nm, ", ".join(operand(o) for o in r["ops"]))
    return json.dumps(r)

def mx(sp):
    s = sp.get("sp", "?")
    if "mx" in sp: s += " <" + ",".join(sp["mx"]) + "> @" + sp.get("cs", "?")
    return s

def pp_fn(f, out=sys.stdout):
    out.write("fn %s  [%s %s] args=%d  %s\n" % (f["path"], f["def_kind"], f["vis"], f["arg_count"], mx(f["span"])))
    for i, l in enumerate(f["locals"]):
        names = [d["name"] for d in f["debug"] if d["place"]["l"] == i and not d["place"]["p"]]
        out.write("    let _%d: %s;%s\n" % (i, l["ty"]["s"], ("  // " + ",".join(names)) if names else ""))
    for i, b in enumerate(f["blocks"]):
        out.write("  bb%d%s:\n" % (i, " (cleanup)" if b["cleanup"] else ""))
        for s in b["stmts"]:
            if s["k"] == "assign":
                out.write("    %s = %s;   // %s\n" % (place(s["place"]), rvalue(s["rv"]), mx(s["span"])))
            else:
                out.write("    %s\n" % json.dumps(s))
        t = b["term"]
        k = t["k"]
        if k == "goto": out.write("    goto bb%d\n" % t["target"])
        elif k == "switch": out.write("    switch %s -> %s, otherwise bb%d\n" % (operand(t["discr"]), ", ".join("%s: bb%d" % (v, b) for v, b in t["targets"]), t["otherwise"]))
        elif k == "call":
            out.write("    %s = %s(%s) -> %s   // %s\n" % (place(t["dest"]), operand(t["func"]), ", ".join(operand(a) for a in t["args"]), ("bb%d" % t["target"]) if t["target"] is not None else "!", mx(t["span"])))
        elif k == "assert":
            out.write("    assert(%s == %s, %s) -> bb%d   // %s\n" % (operand(t["cond"]), t["expected"], t["kind"], t["target"], mx(t["span"])))
        elif k == "drop": out.write("    drop(%s) -> bb%d\n" % (place(t["place"]), t["target"]))
        else: out.write("    %s\n" % k)

if __name__ == "__main__":
    d = json.load(open(sys.argv[1]))
    pat = sys.argv[2] if len(sys.argv) > 2 else None
    if pat is None:
        for f in d["fns"]: print(f["path"], f["def_kind"])
    else:
        for f in d["fns"]:
            if pat in f["path"]:
                pp_fn(f)
                print()
