"""Rule catalogue (DESIGN §4).  Each rule takes the check context, a fact database and anchors given
as public API names, generates obligations from the resolved program and records a verdict per
obligation.  Rules never look at line numbers, local names or token sequences."""
import fnode as F
from lin import Lin, simp, INF
from machine import (Machine, Config, Cell, VStruct, VTuple, VArray, VRef, VOpaque, VModel, deep, explore,
                     is_float, is_int, is_cond, PathEnd, Unsupported, SYM_HI)
from order import Infeasible
from scen import (Est, Run, leaves, leaf_map, show_val, sym_self, call, run_entry, final_leaves, init_leaves,
                  changed_leaves, same, site, macro_names, is_debug_only, pc_show, ESTIMATE, MERGE)


# ---------------------------------------------------------------------------------------------
# helpers


def param_names(f):
    names = {}
    for d in f["debug"]:
        if d.get("arg") is not None and not d["place"]["p"]:
            names[d["place"]["l"]] = d["name"]
    return names


def abstract_args(m, f, first=2, prefix=""):
    """abstract values for parameters _first.. of fn `f`, named after the source parameter names"""
    names = param_names(f)
    out = []
    for i in range(first, f["arg_count"] + 1):
        nm = prefix + names.get(i, "arg%d" % i)
        out.append(m.sym_value(f["locals"][i]["ty"], nm))
    return out


def self_ref(cell, mut):
    return VRef(cell, (), mut)


def fn_site(db, path):
    f = db.fns.get(path)
    return site(f["span"]) if f else "?"


def count_leaf(ctx, db, est):
    """name of the integer leaf of `est` that `len()` returns (None when the type has no len)"""
    p = est.m("len", None)
    if p is None:
        return None

    def build(m):
        c = sym_self(m, est)
        return [self_ref(c, False)], {"self": c}
    run = run_entry(db, p, build, Config(release=True))
    ctx.count_run(run)
    leafs = set()
    for pr in run.returns():
        v = simp(pr.ret)
        if isinstance(v, Lin) and len(v.terms) == 1 and v.c == 0:
            (s, k), = v.terms.items()
            if k == 1 and s.startswith("self."):
                leafs.add(s[5:])
                continue
        return None
    if len(leafs) == 1:
        return next(iter(leafs))
    return None


def add_arity(db, est):
    f = db.fns.get(est.add)
    return f["arg_count"] - 1 if f else 0


# ---------------------------------------------------------------------------------------------
# R-COUNT


def r_count(ctx, db, est, cfgname, expect_merge=True):
    """sample-size discipline: add increments the count exactly once by 1 on every path; merge adds
    other's count exactly; is_empty() == (len() == 0)."""
    tag = "%s@%s" % (est.path, cfgname)
    leaf = count_leaf(ctx, db, est)
    if leaf is None:
        ctx.ob("R-COUNT", "len-leaf", est.path, "-", False,
               "cannot identify the integer state that len() returns", inc=True)
        return None
    # (i) add
    addp = est.add
    if addp:
        f = db.fns[addp]

        def build(m):
            c = sym_self(m, est)
            return [self_ref(c, True)] + abstract_args(m, f), {"self": c}
        run = run_entry(db, addp, build, Config(release=True))
        ctx.count_run(run)
        n_ret = 0
        for p in run.paths:
            if p.status == "return":
                n_ret += 1
                a, b = init_leaves(p), final_leaves(p)
                want = simp(Lin.lift(a[leaf]) + 1)
                got = simp(b.get(leaf))
                ok = is_int(got) and p.machine.ienv.cmp("Eq", got, want) is True
                ctx.ob("R-COUNT", "add:+1", addp, fn_site(db, addp), ok,
                       "count after add = %s, expected %s  [path: %s]" % (show_val(got), show_val(want), pc_show(p.pc) or "unconditional"),
                       sample={"leaf": leaf, "after": show_val(got), "path_condition": pc_show(p.pc)},
                       inc=(not ok and p.inconclusive is not None))
            elif p.status == "inconclusive":
                ctx.ob("R-COUNT", "add:+1", addp, fn_site(db, addp), False, str(p.info.get("why")), inc=True)
        if n_ret == 0:
            ctx.ob("R-COUNT", "add:+1", addp, fn_site(db, addp), False, "add has no returning path", inc=True)
    # (ii) merge
    mp = est.merge
    if mp and expect_merge:
        def build2(m):
            c = sym_self(m, est)
            o = sym_self(m, est, "other")
            return [self_ref(c, True), self_ref(o, False)], {"self": c, "other": o}
        run = run_entry(db, mp, build2, Config(release=True))
        ctx.count_run(run)
        for p in run.paths:
            if p.status == "return":
                a, b = init_leaves(p), final_leaves(p)
                oth = init_leaves(p, "other")
                want = simp(Lin.lift(a[leaf]) + Lin.lift(oth[leaf]))
                got = simp(b.get(leaf))
                ok = is_int(got) and p.machine.ienv.cmp("Eq", got, want) is True
                ctx.ob("R-COUNT", "merge:additive", mp, fn_site(db, mp), ok,
                       "count after merge = %s, expected %s  [path: %s]" % (show_val(got), show_val(want), pc_show(p.pc) or "unconditional"),
                       sample={"leaf": leaf, "after": show_val(got), "path_condition": pc_show(p.pc)},
                       inc=(not ok and p.inconclusive is not None))
                # other untouched
                ch = changed_leaves(p, "other")
                ctx.ob("R-FRAME", "merge:other-untouched", mp, fn_site(db, mp), not ch,
                       "merge modified its argument: %s" % sorted(ch) if ch else "argument unchanged")
            elif p.status == "inconclusive":
                ctx.ob("R-COUNT", "merge:additive", mp, fn_site(db, mp), False, str(p.info.get("why")), inc=True)
    # (iv) is_empty == (len == 0)
    ie = est.m("is_empty", None)
    if ie:
        for label, bounds, want in (("n=0", 0, True), ("n>=1", (1, SYM_HI), False)):
            def build3(m, bounds=bounds):
                c = sym_self(m, est, int_bounds={"self." + leaf: bounds})
                return [self_ref(c, False)], {"self": c}
            run = run_entry(db, ie, build3, Config(release=True))
            ctx.count_run(run)
            for p in run.paths:
                if p.status != "return":
                    ctx.ob("R-COUNT", "is_empty:" + label, ie, fn_site(db, ie), False, "is_empty does not return: %s" % p.status,
                           inc=(p.status == "inconclusive"))
                    continue
                try:
                    forks0 = len(p.machine.trace)
                    val = p.machine.truth(p.ret, None) if is_cond(p.ret) else None
                    forked = len(p.machine.trace) > forks0
                except Exception:
                    val, forked = None, True
                ok = (val is want) and not forked
                ctx.ob("R-COUNT", "is_empty:" + label, ie, fn_site(db, ie), ok,
                       "is_empty() with %s evaluates to %r%s, expected %r" % (label, val, " (data-dependent)" if forked else "", want))
    return leaf


# ---------------------------------------------------------------------------------------------
# R-LAW (D7): algebraic laws between the repository's own operations

import pit
from scen import Alg, pc_equalities


def _pit_bounds(m):
    b = {}
    for s, lo in m.ienv.lo.items():
        hi = m.ienv.hi.get(s, INF)
        b[s] = (int(lo) if lo > -INF else 0, int(hi) if hi < SYM_HI // 2 else None)
    return b


def compare_states(ctx, rule, key, fn, fsite, p, la, lb, seed=1, points=4, d7=True, what=""):
    """compare two leaf maps produced on path `p`; records one obligation per float/int leaf group"""
    m = p.machine
    eqs = pc_equalities(p.pc)
    pairs = []
    bad = None
    for k in sorted(set(la) | set(lb)):
        a, b = la.get(k), lb.get(k)
        if a is None or b is None:
            bad = (k, "leaf missing on one side")
            break
        if is_int(a) and is_int(b):
            a2, b2 = simp(a), simp(b)
            if not (a2 == b2 or m.ienv.cmp("Eq", a2, b2) is True):
                bad = (k, "integer state differs: %s vs %s" % (show_val(a2), show_val(b2)))
                break
        elif is_float(a) and is_float(b):
            if a != b:
                if eqs:
                    a, b = F.subst(a, eqs), F.subst(b, eqs)
                pairs.append((k, a, b))
        elif is_cond(a) and is_cond(b):
            if a != b:
                bad = (k, "boolean state differs")
                break
        else:
            bad = (k, "leaf kinds differ: %r vs %r" % (a, b))
            break
    pcs = pc_show(p.pc)
    if bad:
        ctx.ob(rule, key, fn, fsite, False, "%s: %s: %s [path: %s]" % (what, bad[0], bad[1], pcs or "unconditional"), d7=d7)
        return False
    if not pairs:
        ctx.ob(rule, key, fn, fsite, True, "%s: states syntactically identical [path: %s]" % (what, pcs or "unconditional"), d7=False, nontrivial=False)
        return True
    try:
        ok, diff = pit.identical(pairs, seed=seed, points=points, int_bounds=_pit_bounds(m))
    except pit.NeedSymbolic as e:
        try:
            import d7
            ok, diff = d7.identical(pairs, m)
        except Exception as e2:
            ctx.ob(rule, key, fn, fsite, False, "%s: identity not decidable by either engine (%s; %s)" % (what, e, e2), d7=True, inc=True)
            return None
    if ok:
        ctx.ob(rule, key, fn, fsite, True, "%s: %d float leaves equal as rational functions [path: %s]" % (what, len(pairs), pcs or "unconditional"),
               d7=d7, sample={"leaves": [k for k, _, _ in pairs][:6]})
        return True
    lab = diff[0]
    ctx.ob(rule, key, fn, fsite, False,
           "%s: `%s` differs between the two sides over the reals (at a rational sample point: %s vs %s) [path: %s]" % (
               what, lab, diff[2], diff[3], pcs or "unconditional"),
           d7=d7, sample={"leaf": lab, "lhs": show_val(la.get(lab))[:300], "rhs": show_val(lb.get(lab))[:300]})
    return False


def add_atoms(m, est, tag):
    f = m.db.fns[est.add]
    return abstract_args(m, f, 2, prefix=tag + "_")


def r_law_generic(ctx, db, est, law, builder, key=None, seed=1, points=4, max_paths=200, fn=None):
    """builder(alg) -> (lhs_cell_or_leafmap, rhs_cell_or_leafmap)"""
    fn = fn or (est.merge if law in ("L2", "L3", "L4") else est.add)
    fsite = fn_site(db, fn)

    def setup(m):
        alg = Alg(m, est)

        def thunk():
            l, r = builder(alg)
            la = leaf_map(l.v) if isinstance(l, Cell) else l
            lb = leaf_map(r.v) if isinstance(r, Cell) else r
            return (la, lb)
        return thunk, {}
    paths, stats = explore(db, setup, Config(release=True), max_paths)
    run = Run(fn, paths, stats, law)
    ctx.count_run(run)
    nret = 0
    for p in paths:
        if p.status == "return":
            nret += 1
            la, lb = p.ret
            compare_states(ctx, "R-LAW", key or law, fn, fsite, p, la, lb, seed=seed, points=points, what=law)
        elif p.status == "panic":
            if is_debug_only(p.info.get("span") or {}):
                continue
            ctx.ob("R-LAW", key or law, fn, fsite, False, "%s: evaluation panics (%s at %s) [path: %s]" % (
                law, p.info.get("kind"), site(p.info.get("span")), pc_show(p.pc)), d7=False)
        else:
            ctx.ob("R-LAW", key or law, fn, fsite, False, "%s: %s" % (law, p.info.get("why")), inc=True)
    if nret == 0:
        ctx.ob("R-LAW", key or law, fn, fsite, False, "%s: no returning path" % law, inc=True)


def laws_add_merge(ctx, db, est, which=("L1", "L2", "L3", "L4"), seed=1):
    if "L1" in which and est.add:
        for label, mk_s in (("generic", lambda a: a.sym("S")), ("empty", lambda a: a.new("S"))):
            def b1(alg, mk_s=mk_s):
                xs = add_atoms(alg.m, est, "x")
                ys = add_atoms(alg.m, est, "y")
                s1 = mk_s(alg)
                s2 = alg.clone(s1)
                alg.add(s1, *xs)
                alg.add(s1, *ys)
                alg.add(s2, *ys)
                alg.add(s2, *xs)
                return s1, s2
            r_law_generic(ctx, db, est, "L1", b1, key="L1:add-commutes:" + label, seed=seed)
    if "L2" in which and est.add and est.merge:
        def b2(alg):
            xs = add_atoms(alg.m, est, "x")
            s1 = alg.sym("S")
            s2 = alg.clone(s1)
            single = alg.new("single")
            alg.add(single, *xs)
            alg.merge(s1, single)
            alg.add(s2, *xs)
            return s1, s2
        r_law_generic(ctx, db, est, "L2", b2, key="L2:merge-singleton=add", seed=seed)
    if "L3" in which and est.merge:
        def b3(alg):
            a = alg.sym("A")
            b = alg.sym("B")
            a2, b2_ = alg.clone(a), alg.clone(b)
            alg.merge(a, b)
            alg.merge(b2_, a2)
            return a, b2_
        r_law_generic(ctx, db, est, "L3", b3, key="L3:merge-commutes", seed=seed)
    if "L4" in which and est.merge:
        def b4(alg):
            a = alg.sym("A")
            b = alg.sym("B")
            c = alg.sym("C")
            a2, b2_, c2 = alg.clone(a), alg.clone(b), alg.clone(c)
            alg.merge(a, b)
            alg.merge(a, c)
            alg.merge(b2_, c2)
            alg.merge(a2, b2_)
            return a, a2
        r_law_generic(ctx, db, est, "L4", b4, key="L4:merge-associates", seed=seed)


# ---------------------------------------------------------------------------------------------
# R-IDENT: exact pass-through (bit-for-bit identities)


def exact_equal(m, a, b, eqs=None):
    """are two leaves the same value bit-for-bit (as numbers) on this path?"""
    if is_int(a) and is_int(b):
        a2, b2 = simp(a), simp(b)
        return a2 == b2 or m.ienv.cmp("Eq", a2, b2) is True
    if is_float(a) and is_float(b):
        if a == b:
            return True
        if eqs:
            return F.subst(a, eqs) == F.subst(b, eqs)
        return False
    if is_cond(a) and is_cond(b):
        return a == b
    return False


def exact_state_equal(p, la, lb):
    m = p.machine
    eqs = pc_equalities(p.pc)
    bad = []
    for k in sorted(set(la) | set(lb)):
        a, b = la.get(k), lb.get(k)
        if a is None or b is None or not exact_equal(m, a, b, eqs):
            bad.append((k, show_val(a)[:160] if a is not None else None, show_val(b)[:160] if b is not None else None))
    return bad


def r_ident_merge(ctx, db, est, mk_empty=None, assume=None, nonnan_fields=True, label=""):
    """merge with a freshly constructed empty estimator on either side is an exact identity"""
    mp = est.merge
    if not mp:
        return
    fsite = fn_site(db, mp)
    for side in ("other-empty", "self-empty"):
        for nmin in (1, 0):
            if nmin == 0 and side == "self-empty":
                pass

            def setup(m, side=side, nmin=nmin):
                alg = Alg(m, est)
                if nmin == 0:
                    full = alg.new("a")
                else:
                    full = alg.sym("a", nmin=1)
                    if assume:
                        assume(m, full)
                empty = mk_empty(alg, full) if mk_empty else alg.new("empty")
                snap_full = leaf_map(deep(full.v))

                def thunk():
                    if side == "other-empty":
                        alg.merge(full, empty)
                        return leaf_map(full.v), snap_full
                    alg.merge(empty, full)
                    return leaf_map(empty.v), snap_full
                return thunk, {"a": (full, deep(full.v)), "empty": (empty, deep(empty.v))}
            paths, stats = explore(db, setup, Config(release=True), 500)
            run = Run(mp, paths, stats, side)
            ctx.count_run(run)
            key = "merge-identity:%s:%s" % (side, "a-nonempty" if nmin else "a-empty")
            nret = 0
            for p in paths:
                if p.status == "return":
                    nret += 1
                    got, want = p.ret
                    bad = exact_state_equal(p, got, want)
                    ctx.ob("R-IDENT", key, mp, fsite, not bad,
                           ("state after merge is not an exact copy: %s [path: %s]" % (bad[:3], pc_show(p.pc) or "unconditional")) if bad
                           else "all %d state leaves are exactly the entry values [path: %s]" % (len(want), pc_show(p.pc) or "unconditional"),
                           sample={"leaves": sorted(want)[:8]})
                    if side == "self-empty" or True:
                        ch = changed_leaves(p, "a" if side == "self-empty" else "empty")
                        ctx.ob("R-FRAME", "merge:argument-untouched:" + side, mp, fsite, not ch,
                               "merge modified its argument: %s" % sorted(ch) if ch else "argument unchanged", nontrivial=False)
                elif p.status == "panic":
                    if is_debug_only(p.info.get("span") or {}):
                        continue
                    ctx.ob("R-IDENT", key, mp, fsite, False, "merge with an empty estimator panics (%s at %s) [path: %s]" % (
                        p.info.get("kind"), site(p.info.get("span")), pc_show(p.pc)))
                else:
                    ctx.ob("R-IDENT", key, mp, fsite, False, str(p.info.get("why")), inc=True)
            if nret == 0:
                ctx.ob("R-IDENT", key, mp, fsite, False, "no returning path", inc=True)
