"""Rule catalogue (DESIGN §4).  Each rule takes the check context, a fact database and anchors given
as public API names, generates obligations from the resolved program and records a verdict per
obligation.  Rules never look at line numbers, local names or token sequences."""
import fnode as F
from lin import Lin, simp, INF
from machine import (Machine, Config, Cell, VStruct, VTuple, VArray, VRef, VOpaque, VModel, deep, explore,
                     is_float, is_int, is_cond, PathEnd, Unsupported, SYM_HI)
from order import Infeasible
from scen import (Est, Run, leaves, leaf_map, show_val, sym_self, call, run_entry, final_leaves, init_leaves,
                  changed_leaves, same, site, macro_names, is_debug_only, pc_show, ESTIMATE, MERGE)


# ---------------------------------------------------------------------------------------------
# helpers


def param_names(f):
    names = {}
    for d in f["debug"]:
        if d.get("arg") is not None and not d["place"]["p"]:
            names[d["place"]["l"]] = d["name"]
    return names


def abstract_args(m, f, first=2, prefix=""):
    """abstract values for parameters _first.. of fn `f`, named after the source parameter names"""
    names = param_names(f)
    out = []
    for i in range(first, f["arg_count"] + 1):
        nm = prefix + names.get(i, "arg%d" % i)
        out.append(m.sym_value(f["locals"][i]["ty"], nm))
    return out


def self_ref(cell, mut):
    return VRef(cell, (), mut)


def fn_site(db, path):
    f = db.fns.get(path)
    return site(f["span"]) if f else "?"


def count_leaf(ctx, db, est):
    """name of the integer leaf of `est` that `len()` returns (None when the type has no len)"""
    p = est.m("len", None)
    if p is None:
        return None

    def build(m):
        c = sym_self(m, est)
        return [self_ref(c, False)], {"self": c}
    run = run_entry(db, p, build, Config(release=True))
    ctx.count_run(run)
    leafs = set()
    for pr in run.returns():
        v = simp(pr.ret)
        if isinstance(v, Lin) and len(v.terms) == 1 and v.c == 0:
            (s, k), = v.terms.items()
            if k == 1 and s.startswith("self."):
                leafs.add(s[5:])
                continue
        return None
    if len(leafs) == 1:
        return next(iter(leafs))
    return None


def leaf_type(db, adt_path, leaf):
    """type JSON of the state leaf `a.b.c[3]` of struct `adt_path` (None when it cannot be resolved)"""
    import re as _re
    ty = {"k": "adt", "path": adt_path, "args": []}
    for part in leaf.split("."):
        m_ = _re.match(r"^(\w+)((?:\[\d+\])*)$", part)
        if not m_:
            return None
        name, idx = m_.group(1), m_.group(2)
        if ty.get("k") != "adt":
            return None
        a = db.adts.get(ty["path"])
        if a is None or a["kind"] != "struct":
            return None
        f = [x for x in a["variants"][0]["fields"] if x["name"] == name]
        if not f:
            return None
        ty = f[0]["ty"]
        for _ in _re.findall(r"\[\d+\]", idx):
            if ty.get("k") != "array":
                return None
            ty = ty["elem"]
    return ty


def r_shadow(ctx, db, est):
    """R-SIB: an inherent method named like a method of the crate's `Estimate` / `Merge` traits wins
    method-call syntax (`x.merge(&y)`), so it must do exactly what the trait impl does — on every
    abstract state, leaf for leaf — or not exist.  On the pinned tree only the `define_moments!` types
    have such a pair (`add`), and the trait impl forwards to it."""
    n = 0
    for name, trait in (("add", ESTIMATE), ("merge", MERGE), ("estimate", ESTIMATE)):
        tp, ip = est.m(name, trait), est.m(name, None)
        if not tp or not ip or tp == ip or tp not in db.fns or ip not in db.fns:
            continue
        ft, fi = db.fns[tp], db.fns[ip]
        if ft["arg_count"] != fi["arg_count"]:
            continue

        def forwards(f, target):
            """the body is a single call of `target` with the function's own parameters, in order, and returns its result"""
            calls = [b_["term"] for b_ in f["blocks"] if b_["term"].get("k") == "call"]
            if len(calls) != 1:
                return False
            t_ = calls[0]
            fc = ((t_.get("func") or {}).get("c") or {})
            fr = fc.get("fnref") or {}
            if target not in ((fc.get("ty") or {}).get("path"), fr.get("resolved"), fr.get("fn")):
                return False
            if any(st_.get("k") == "assign" and st_["rv"].get("k") not in ("use", "ref", "reborrow", "copy", "move", "cast", "aggr", "addr")
                   for b_ in f["blocks"] for st_ in b_["stmts"]):
                return False
            return len(t_.get("args") or []) == f["arg_count"]
        if forwards(ft, ip) or forwards(fi, tp):
            n += 1
            ctx.ob("R-SIB", "inherent-vs-trait:%s" % name, ip, fn_site(db, ip), True,
                   "one of the inherent `%s` and `<%s as %s>::%s` is a plain forward to the other" % (name, est.name, trait.split("::")[-1], name))
            continue
        res = {}
        for which, fp, f in (("trait", tp, ft), ("inherent", ip, fi)):
            def setup(m, fp=fp, f=f):
                c = sym_self(m, est, "self", int_min=0)
                args = []
                for i in range(2, f["arg_count"] + 1):
                    ty = f["locals"][i]["ty"]
                    if ty.get("k") == "ref" and ty["to"].get("k") == "adt" and ty["to"].get("path") == est.path:
                        args.append(self_ref(sym_self(m, est, "other", int_min=0), False))
                    else:
                        args.append(m.sym_value(ty, "arg%d" % i))

                def thunk():
                    r_ = call(m, fp, [self_ref(c, True)] + args)
                    return leaf_map(c.v), (r_ if is_float(r_) else None)
                return thunk, {}
            paths, stats = explore(db, setup, Config(release=True), 600)
            ctx.count_run(Run(fp, paths, stats, "shadow-" + which))
            out = {}
            for p in paths:
                if p.status == "return":
                    out[pc_show(p.pc) or "unconditional"] = p.ret
                elif p.status == "inconclusive":
                    out = None
                    break
            res[which] = out
        key = "inherent-vs-trait:%s" % name
        n += 1
        if res["trait"] is None or res["inherent"] is None:
            ctx.ob("R-SIB", key, ip, fn_site(db, ip), False, "could not evaluate both %s methods" % name, inc=True)
            continue
        same = set(res["trait"]) == set(res["inherent"]) and all(res["trait"][k] == res["inherent"][k] for k in res["trait"])
        ctx.ob("R-SIB", key, ip, fn_site(db, ip), same,
               "the inherent `%s` and `<%s as %s>::%s` end in the same state on every abstract path" % (name, est.name, trait.split("::")[-1], name) if same else
               "`x.%s(..)` resolves to the inherent method, which does not do what `<%s as %s>::%s` does: paths/states differ (%d vs %d paths)" % (
                   name, est.name, trait.split("::")[-1], name, len(res["inherent"]), len(res["trait"])))
    return n


def add_arity(db, est):
    f = db.fns.get(est.add)
    return f["arg_count"] - 1 if f else 0


# ---------------------------------------------------------------------------------------------
# R-COUNT


def r_count(ctx, db, est, cfgname, expect_merge=True, check_add=True):
    """sample-size discipline: add increments the count exactly once by 1 on every path; merge adds
    other's count exactly; is_empty() == (len() == 0)."""
    tag = "%s@%s" % (est.path, cfgname)
    leaf = count_leaf(ctx, db, est)
    if leaf is None:
        ctx.ob("R-COUNT", "len-leaf", est.path, "-", False,
               "cannot identify the integer state that len() returns", inc=True)
        return None
    r_shadow(ctx, db, est)
    # (0) capacity: len() is a u64; the stored counter must not be narrower (a count of 2^32 is reached by
    # 32 doubling merges, 2^31 observations by a long stream)
    lt = leaf_type(db, est.path, leaf)
    if lt is not None and lt.get("k") == "prim":
        wide = lt.get("s") in ("u64", "i64", "usize", "isize", "u128", "i128")
        ctx.ob("R-COUNT", "counter-width", est.path, "-", wide,
               "the sample counter `%s` is stored as %s%s" % (leaf, lt.get("s"), "" if wide else
                                                              ": narrower than the u64 that len() reports; it overflows (panic in debug builds, wrap-around in release builds) for sample sizes a u64 count admits"),
               nontrivial=False)
    # (i) add
    addp = est.add
    if addp and check_add:
        f = db.fns[addp]

        def build(m):
            c = sym_self(m, est)
            return [self_ref(c, True)] + abstract_args(m, f), {"self": c}
        run = run_entry(db, addp, build, Config(release=True))
        ctx.count_run(run)
        n_ret = 0
        for p in run.paths:
            if p.status == "return":
                n_ret += 1
                a, b = init_leaves(p), final_leaves(p)
                want = simp(Lin.lift(a[leaf]) + 1)
                got = simp(b.get(leaf))
                ok = is_int(got) and p.machine.ienv.cmp("Eq", got, want) is True
                ctx.ob("R-COUNT", "add:+1", addp, fn_site(db, addp), ok,
                       "count after add = %s, expected %s  [path: %s]" % (show_val(got), show_val(want), pc_show(p.pc) or "unconditional"),
                       sample={"leaf": leaf, "after": show_val(got), "path_condition": pc_show(p.pc)},
                       inc=(not ok and p.inconclusive is not None))
            elif p.status == "inconclusive":
                ctx.ob("R-COUNT", "add:+1", addp, fn_site(db, addp), False, str(p.info.get("why")), inc=True)
        if n_ret == 0:
            ctx.ob("R-COUNT", "add:+1", addp, fn_site(db, addp), False, "add has no returning path", inc=True)
    # (ii) merge
    mp = est.merge
    if mp and expect_merge:
        def build2(m):
            c = sym_self(m, est)
            o = sym_self(m, est, "other")
            return [self_ref(c, True), self_ref(o, False)], {"self": c, "other": o}
        run = run_entry(db, mp, build2, Config(release=True))
        ctx.count_run(run)
        for p in run.paths:
            if p.status == "return":
                a, b = init_leaves(p), final_leaves(p)
                oth = init_leaves(p, "other")
                want = simp(Lin.lift(a[leaf]) + Lin.lift(oth[leaf]))
                got = simp(b.get(leaf))
                ok = is_int(got) and p.machine.ienv.cmp("Eq", got, want) is True
                ctx.ob("R-COUNT", "merge:additive", mp, fn_site(db, mp), ok,
                       "count after merge = %s, expected %s  [path: %s]" % (show_val(got), show_val(want), pc_show(p.pc) or "unconditional"),
                       sample={"leaf": leaf, "after": show_val(got), "path_condition": pc_show(p.pc)},
                       inc=(not ok and p.inconclusive is not None))
                # other untouched
                ch = changed_leaves(p, "other")
                ctx.ob("R-FRAME", "merge:other-untouched", mp, fn_site(db, mp), not ch,
                       "merge modified its argument: %s" % sorted(ch) if ch else "argument unchanged")
            elif p.status == "inconclusive":
                ctx.ob("R-COUNT", "merge:additive", mp, fn_site(db, mp), False, str(p.info.get("why")), inc=True)
    # (iv) is_empty == (len == 0)
    ie = est.m("is_empty", None)
    if ie:
        for label, bounds, want in (("n=0", 0, True), ("n>=1", (1, SYM_HI), False)):
            def build3(m, bounds=bounds):
                c = sym_self(m, est, int_bounds={"self." + leaf: bounds})
                return [self_ref(c, False)], {"self": c}
            run = run_entry(db, ie, build3, Config(release=True))
            ctx.count_run(run)
            for p in run.paths:
                if p.status != "return":
                    ctx.ob("R-COUNT", "is_empty:" + label, ie, fn_site(db, ie), False, "is_empty does not return: %s" % p.status,
                           inc=(p.status == "inconclusive"))
                    continue
                try:
                    forks0 = len(p.machine.trace)
                    val = p.machine.truth(p.ret, None) if is_cond(p.ret) else None
                    forked = len(p.machine.trace) > forks0
                except Exception:
                    val, forked = None, True
                ok = (val is want) and not forked
                ctx.ob("R-COUNT", "is_empty:" + label, ie, fn_site(db, ie), ok,
                       "is_empty() with %s evaluates to %r%s, expected %r" % (label, val, " (data-dependent)" if forked else "", want))
    return leaf


# ---------------------------------------------------------------------------------------------
# R-LAW (D7): algebraic laws between the repository's own operations

import pit
from scen import Alg, pc_equalities


def _pit_bounds(m):
    b = {}
    for s, lo in m.ienv.lo.items():
        hi = m.ienv.hi.get(s, INF)
        b[s] = (int(lo) if lo > -INF else 0, int(hi) if hi < SYM_HI // 2 else None)
    return b


def compare_states(ctx, rule, key, fn, fsite, p, la, lb, seed=1, points=4, d7=True, what=""):
    """compare two leaf maps produced on path `p`; records one obligation per float/int leaf group"""
    m = p.machine
    eqs = pc_equalities(p.pc)
    pairs = []
    bad = None
    for k in sorted(set(la) | set(lb)):
        a, b = la.get(k), lb.get(k)
        if a is None or b is None:
            bad = (k, "leaf missing on one side")
            break
        if is_int(a) and is_int(b):
            a2, b2 = simp(a), simp(b)
            if not (a2 == b2 or m.ienv.cmp("Eq", a2, b2) is True):
                bad = (k, "integer state differs: %s vs %s" % (show_val(a2), show_val(b2)))
                break
        elif is_float(a) and is_float(b):
            if a != b:
                if eqs:
                    a, b = F.subst(a, eqs), F.subst(b, eqs)
                pairs.append((k, a, b))
        elif is_cond(a) and is_cond(b):
            if a != b:
                bad = (k, "boolean state differs")
                break
        else:
            bad = (k, "leaf kinds differ: %r vs %r" % (a, b))
            break
    pcs = pc_show(p.pc)
    if bad:
        ctx.ob(rule, key, fn, fsite, False, "%s: %s: %s [path: %s]" % (what, bad[0], bad[1], pcs or "unconditional"), d7=d7)
        return False
    if not pairs:
        ctx.ob(rule, key, fn, fsite, True, "%s: states syntactically identical [path: %s]" % (what, pcs or "unconditional"), d7=False, nontrivial=False)
        return True
    try:
        ok, diff = pit.identical(pairs, seed=seed, points=points, int_bounds=_pit_bounds(m))
    except pit.NeedSymbolic as e:
        try:
            import d7
            ok, diff = d7.identical(pairs, m)
        except Exception as e2:
            ctx.ob(rule, key, fn, fsite, False, "%s: identity not decidable by either engine (%s; %s)" % (what, e, e2), d7=True, inc=True)
            return None
    if ok:
        ctx.ob(rule, key, fn, fsite, True, "%s: %d float leaves equal as rational functions [path: %s]" % (what, len(pairs), pcs or "unconditional"),
               d7=d7, sample={"leaves": [k for k, _, _ in pairs][:6]})
        return True
    lab = diff[0]
    ctx.ob(rule, key, fn, fsite, False,
           "%s: `%s` differs between the two sides over the reals (at a rational sample point: %s vs %s) [path: %s]" % (
               what, lab, diff[2], diff[3], pcs or "unconditional"),
           d7=d7, sample={"leaf": lab, "lhs": show_val(la.get(lab))[:300], "rhs": show_val(lb.get(lab))[:300]})
    return False


def add_atoms(m, est, tag):
    f = m.db.fns[est.add]
    return abstract_args(m, f, 2, prefix=tag + "_")


_WEIGHT_LEAVES = {}


def weight_leaves(db, est):
    """state leaves that accumulate weights only: after new().add(x, w) they depend on w alone"""
    key = (id(db), est.path)
    if key not in _WEIGHT_LEAVES:
        out = set()
        try:
            m = Machine(db, [], Config(release=True))
            alg = Alg(m, est)
            xs = add_atoms(m, est, "x")
            if len(xs) == 2:
                for v in xs:
                    m.order.set_nan(v, False)
                m.order.assume("Gt", xs[1], F.ZERO, True)
                s = alg.new("s")
                alg.add(s, *xs)
                wn = {xs[1][1]}
                for k, v in leaves(s.v):
                    if is_float(v) and not F.is_lit(v) and F.atoms(v) and F.atoms(v) <= wn:
                        out.add(k)
        except (PathEnd, Unsupported):
            pass
        _WEIGHT_LEAVES[key] = out
    return _WEIGHT_LEAVES[key]


def weights_assumer(db, est, strict):
    """domain facts for abstract states of a weighted estimator: weight accumulators are not NaN
    and >= 0 (> 0 when `strict`: law states have a positive total weight; the zero-weight 'empty'
    states are covered by R-IDENT / R-ZEROW)"""
    wl = weight_leaves(db, est)

    def f(m, cell):
        for k, v in leaves(cell.v):
            if is_float(v) and not F.is_lit(v):
                m.order.set_nan(v, False)
                if k in wl:
                    m.order.assume("Gt" if strict else "Ge", v, F.ZERO, True)
    return f


def r_law_generic(ctx, db, est, law, builder, key=None, seed=1, points=4, max_paths=200, fn=None, assume=None):
    """builder(alg) -> (lhs_cell_or_leafmap, rhs_cell_or_leafmap)"""
    fn = fn or (est.merge if law in ("L2", "L3", "L4") else est.add)
    fsite = fn_site(db, fn)

    def setup(m):
        alg = Alg(m, est)
        if assume is not None:
            alg.state_assume = assume

        def thunk():
            l, r = builder(alg)
            la = leaf_map(l.v) if isinstance(l, Cell) else l
            lb = leaf_map(r.v) if isinstance(r, Cell) else r
            return (la, lb)
        return thunk, {}
    paths, stats = explore(db, setup, Config(release=True), max_paths)
    run = Run(fn, paths, stats, law)
    ctx.count_run(run)
    nret = 0
    for p in paths:
        if p.status == "return":
            nret += 1
            la, lb = p.ret
            compare_states(ctx, "R-LAW", key or law, fn, fsite, p, la, lb, seed=seed, points=points, what=law)
        elif p.status == "panic":
            if is_debug_only(p.info.get("span") or {}):
                continue
            ctx.ob("R-LAW", key or law, fn, fsite, False, "%s: evaluation panics (%s at %s) [path: %s]" % (
                law, p.info.get("kind"), site(p.info.get("span")), pc_show(p.pc)), d7=False)
        else:
            ctx.ob("R-LAW", key or law, fn, fsite, False, "%s: %s" % (law, p.info.get("why")), inc=True)
    if nret == 0:
        ctx.ob("R-LAW", key or law, fn, fsite, False, "%s: no returning path" % law, inc=True)


def weighted_args(m, xs):
    """domain of the weighted estimators: finite samples, weights >= 0"""
    for v in xs:
        if is_float(v) and not F.is_lit(v):
            m.order.set_nan(v, False)
    if len(xs) > 1:
        m.order.assume("Ge", xs[1], F.ZERO, True)


def laws_add_merge(ctx, db, est, which=("L1", "L2", "L3", "L4"), seed=1, assume=None, arg_assume=None):
    _plain = add_atoms

    def add_atoms_(m, est_, tag):
        xs = _plain(m, est_, tag)
        if arg_assume is not None:
            arg_assume(m, xs)
        return xs
    return _laws_add_merge(ctx, db, est, which, seed, assume, add_atoms_)


def _laws_add_merge(ctx, db, est, which, seed, assume, add_atoms):
    if "L1" in which and est.add:
        for label, mk_s in (("generic", lambda a: a.sym("S")), ("empty", lambda a: a.new("S"))):
            def b1(alg, mk_s=mk_s):
                xs = add_atoms(alg.m, est, "x")
                ys = add_atoms(alg.m, est, "y")
                s1 = mk_s(alg)
                s2 = alg.clone(s1)
                alg.add(s1, *xs)
                alg.add(s1, *ys)
                alg.add(s2, *ys)
                alg.add(s2, *xs)
                return s1, s2
            r_law_generic(ctx, db, est, "L1", b1, key="L1:add-commutes:" + label, seed=seed, assume=assume)
    if "L2" in which and est.add and est.merge:
        def b2(alg):
            xs = add_atoms(alg.m, est, "x")
            s1 = alg.sym("S")
            s2 = alg.clone(s1)
            single = alg.new("single")
            alg.add(single, *xs)
            alg.merge(s1, single)
            alg.add(s2, *xs)
            return s1, s2
        r_law_generic(ctx, db, est, "L2", b2, key="L2:merge-singleton=add", seed=seed, assume=assume)
    if "L3" in which and est.merge:
        def b3(alg):
            a = alg.sym("A")
            b = alg.sym("B")
            a2, b2_ = alg.clone(a), alg.clone(b)
            alg.merge(a, b)
            alg.merge(b2_, a2)
            return a, b2_
        r_law_generic(ctx, db, est, "L3", b3, key="L3:merge-commutes", seed=seed, assume=assume)
    if "L4" in which and est.merge:
        def b4(alg):
            a = alg.sym("A")
            b = alg.sym("B")
            c = alg.sym("C")
            a2, b2_, c2 = alg.clone(a), alg.clone(b), alg.clone(c)
            alg.merge(a, b)
            alg.merge(a, c)
            alg.merge(b2_, c2)
            alg.merge(a2, b2_)
            return a, a2
        r_law_generic(ctx, db, est, "L4", b4, key="L4:merge-associates", seed=seed, assume=assume)


# ---------------------------------------------------------------------------------------------
# R-IDENT: exact pass-through (bit-for-bit identities)


def exact_equal(m, a, b, eqs=None):
    """are two leaves the same value bit-for-bit (as numbers) on this path?"""
    if is_int(a) and is_int(b):
        a2, b2 = simp(a), simp(b)
        return a2 == b2 or m.ienv.cmp("Eq", a2, b2) is True
    if is_float(a) and is_float(b):
        if a == b:
            return True
        if eqs:
            return F.subst(a, eqs) == F.subst(b, eqs)
        return False
    if is_cond(a) and is_cond(b):
        return a == b
    return False


def exact_state_equal(p, la, lb):
    m = p.machine
    eqs = pc_equalities(p.pc)
    bad = []
    for k in sorted(set(la) | set(lb)):
        a, b = la.get(k), lb.get(k)
        if a is None or b is None or not exact_equal(m, a, b, eqs):
            bad.append((k, show_val(a)[:160] if a is not None else None, show_val(b)[:160] if b is not None else None))
    return bad


def noarg_accessors(db, est):
    """public &self accessors without further arguments (the reported statistics)"""
    out = {}
    for name, p in est.accessors().items():
        f = db.fns[p]
        if f["arg_count"] == 1 and name not in ("clone", "iter", "ranges", "bins"):
            out[name] = p
    tr = est.m("estimate", ESTIMATE)
    if tr:
        out["estimate"] = tr
    return out


def observe(m, db, est, cell):
    """{accessor: value} on the given state (runs inside the current path)"""
    res = {}
    for name, p in sorted(noarg_accessors(db, est).items()):
        try:
            v = call(m, p, [VRef(cell, (), False)])
            if is_cond(v) and not isinstance(v, bool):
                v = m.truth(v, None)
            res[name] = v
        except PathEnd as e:
            if e.status == "panic":
                res[name] = ("panic", e.info.get("kind"))
            else:
                raise
    return res


def r_ident_merge(ctx, db, est, mk_empty=None, assume=None, label=""):
    """merge with a freshly constructed empty estimator on either side is an exact identity:
    the state is an exact copy, or — where a private leaf differs — every reported statistic is
    bit-for-bit the same (C11 speaks about reported statistics)."""
    mp = est.merge
    if not mp:
        return
    fsite = fn_site(db, mp)
    for side in ("other-empty", "self-empty"):
        for nmin in (1, 0):
            def setup(m, side=side, nmin=nmin):
                alg = Alg(m, est)
                if nmin == 0:
                    full = alg.new("a")
                else:
                    full = alg.sym("a", nmin=1)
                    if assume:
                        assume(m, full)
                empty = mk_empty(alg, full) if mk_empty else alg.new("empty")
                ref = Cell(deep(full.v), root="ref")

                def thunk():
                    if side == "other-empty":
                        alg.merge(full, empty)
                        res = full
                    else:
                        alg.merge(empty, full)
                        res = empty
                    return {"got": leaf_map(res.v), "want": leaf_map(ref.v),
                            "obs_got": observe(m, db, est, res), "obs_want": observe(m, db, est, ref)}
                return thunk, {"a": (full, deep(full.v)), "empty": (empty, deep(empty.v))}
            # merging an empty operand must not rely on 0 * x = 0 or x - x = 0 (false when an intermediate
            # such as binom * mean^k overflows for a high-order define_moments! type): no finite-only folding
            paths, stats = explore(db, setup, Config(release=True, finite=(side != "other-empty")), 2000)
            run = Run(mp, paths, stats, side)
            ctx.count_run(run)
            key = "merge-identity:%s:%s" % (side, "a-nonempty" if nmin else "a-empty")
            nret = 0
            for p in paths:
                pcs = pc_show(p.pc) or "unconditional"
                if p.status == "return":
                    nret += 1
                    got, want = p.ret["got"], p.ret["want"]
                    bad = exact_state_equal(p, got, want)
                    if bad:
                        obad = exact_state_equal(p, flat_obs(p.ret["obs_got"]), flat_obs(p.ret["obs_want"]))
                        if not obad:
                            ctx.ob("R-IDENT", key, mp, fsite, True,
                                   "private leaves %s differ but all %d reported statistics are bit-for-bit equal [path: %s]" % (
                                       [b[0] for b in bad][:3], len(p.ret["obs_want"]), pcs))
                        else:
                            ctx.ob("R-IDENT", key, mp, fsite, False,
                                   "merge with an empty estimator changes reported statistics %s (state leaves %s) [path: %s]" % (obad[:3], bad[:2], pcs),
                                   sample={"statistics": obad[:3], "leaves": bad[:3]})
                    else:
                        ctx.ob("R-IDENT", key, mp, fsite, True,
                               "all %d state leaves are exactly the entry values [path: %s]" % (len(want), pcs),
                               sample={"leaves": sorted(want)[:8]})
                    ch = changed_leaves(p, "a" if side == "self-empty" else "empty")
                    ctx.ob("R-FRAME", "merge:argument-untouched:" + side, mp, fsite, not ch,
                           "merge modified its argument: %s" % sorted(ch) if ch else "argument unchanged", nontrivial=False)
                elif p.status == "panic":
                    if is_debug_only(p.info.get("span") or {}):
                        continue
                    ctx.ob("R-IDENT", key, mp, fsite, False, "merge with an empty estimator panics (%s at %s) [path: %s]" % (
                        p.info.get("kind"), site(p.info.get("span")), pcs))
                else:
                    ctx.ob("R-IDENT", key, mp, fsite, False, str(p.info.get("why")), inc=True)
            if nret == 0:
                ctx.ob("R-IDENT", key, mp, fsite, False, "no returning path", inc=True)


def flat_obs(d):
    out = {}
    for k, v in d.items():
        if isinstance(v, tuple) and v and v[0] == "panic":
            out[k] = ("bopq", "panic:%s" % (v[1],))
        elif isinstance(v, (VStruct, VTuple, VArray)):
            for kk, vv in leaves(v, k):
                out[kk] = vv
        else:
            out[k] = v
    return out


def nonnan_state(m, cell):
    """reachable states of Min/Max never hold NaN (f64::min/max return the non-NaN operand)"""
    for k, v in leaves(cell.v):
        if is_float(v) and not F.is_lit(v):
            m.order.set_nan(v, False)


# ---------------------------------------------------------------------------------------------
# R-SENTINEL / R-CONST / R-PANIC


def classify(v):
    """class of an accessor result for the sentinel table"""
    if is_float(v):
        if F.is_lit(v):
            x = F.litval(v)
            if x != x:
                return "nan"
            if x == 0:
                return "0"
            if x == 1:
                return "1"
            if x == float("inf"):
                return "+inf"
            if x == float("-inf"):
                return "-inf"
            return "lit:%r" % x
        if v[0] == "atom":
            return "atom:" + v[1]
        if v[0] == "i2f":
            return "count"
        return "computed"
    if is_int(v):
        return "int"
    return "other"


def set_domain_facts(m, vals, nonneg=(), positive=()):
    """property-domain facts on parameter atoms: finite, not NaN (and optionally >= 0 / > 0)"""
    for v in vals:
        if is_float(v) and not F.is_lit(v):
            m.order.set_nan(v, False)
    for v in nonneg:
        m.order.assume("Ge", v, F.ZERO, True)
    for v in positive:
        m.order.assume("Gt", v, F.ZERO, True)


def eval_accessor_in_state(ctx, db, est, acc_path, mk_state, args=(), rule="R-SENTINEL", key="", expect=None, what=""):
    """evaluate accessor on the state built by mk_state(alg) -> cell; every path must return a
    value whose class is in `expect` (set of classes or callables); panics are violations"""
    fsite = fn_site(db, acc_path)

    def setup(m):
        alg = Alg(m, est)
        cell = mk_state(alg)

        def thunk():
            return call(m, acc_path, [VRef(cell, (), False)] + list(args))
        return thunk, {"self": (cell, deep(cell.v))}
    paths, stats = explore(db, setup, Config(release=True), 400)
    ctx.count_run(Run(acc_path, paths, stats, key))
    nret = 0
    for p in paths:
        pcs = pc_show(p.pc) or "unconditional"
        if p.status == "return":
            nret += 1
            cls = classify(p.ret)
            ok = expect is None or any((e(p, p.ret) if callable(e) else e == cls) for e in expect)
            want = "/".join(getattr(e, "__name__", str(e)) for e in (expect or []))
            ctx.ob(rule, key, acc_path, fsite, ok,
                   "%s returns %s (%s), contract: %s [path: %s]" % (what, show_val(p.ret)[:120], cls, want or "no claim", pcs),
                   sample={"state": what, "value": show_val(p.ret)[:200], "class": cls}, nontrivial=expect is not None)
        elif p.status == "panic":
            if is_debug_only(p.info.get("span") or {}):
                continue
            ctx.ob("R-PANIC", key, acc_path, fsite, False,
                   "%s: reachable panic (%s at %s) [path: %s]" % (what, p.info.get("kind"), site(p.info.get("span")), pcs),
                   sample={"state": what, "panic": p.info.get("kind"), "at": site(p.info.get("span"))})
        else:
            ctx.ob(rule, key, acc_path, fsite, False, "%s: %s" % (what, p.info.get("why")), inc=True)
    if nret == 0 and not any(p.status == "panic" for p in paths):
        ctx.ob(rule, key, acc_path, fsite, False, "%s: no returning path" % what, inc=True)
    return paths


def is_atom(name):
    def f(p, v):
        return is_float(v) and v == F.atom(name)
    f.__name__ = "exactly " + name
    return f


def const_state_builder(est, leafmap_x, nsym=True):
    """state of a constant stream of length n >= 1: the state after one add(x) with the count
    generalised to a symbol (the induction hypothesis of R-CONST)"""
    pass


def r_const_induction(ctx, db, est, leaf, weighted=False):
    """constant streams: from (count = n >= 1, state as after one add of x) one more add(x) keeps
    every observation-dependent float leaf exactly and increments the count: by induction every
    add-only stream of identical observations has the one-observation state (with count n).
    Leaves that depend on weights only (weight sums) may change."""
    addp = est.add
    fsite = fn_site(db, addp)

    def setup(m):
        alg = Alg(m, est)
        xs = add_atoms(m, est, "c")
        obs = xs[:1] if weighted else xs
        wts = xs[1:] if weighted else []
        set_domain_facts(m, xs, positive=wts)
        s1 = alg.new("s")
        alg.add(s1, *xs)
        gen = generalise_counts(m, s1, leaf, {w[1] for w in wts})
        before = leaf_map(deep(gen.v))
        obs_names = {o[1] for o in obs}

        def thunk():
            alg.add(gen, *xs)
            return before, leaf_map(gen.v), obs_names
        return thunk, {}
    paths, stats = explore(db, setup, Config(release=True), 200)
    ctx.count_run(Run(addp, paths, stats, "R-CONST"))
    for p in paths:
        pcs = pc_show(p.pc) or "unconditional"
        if p.status == "return":
            before, after, obs_names = p.ret
            bad = []
            for k in before:
                a, b = before[k], after.get(k)
                if is_int(a):
                    if not (p.machine.ienv.cmp("Eq", simp(b), simp(Lin.lift(a) + 1)) is True):
                        bad.append((k, show_val(a), show_val(b)))
                elif is_float(a):
                    if a != b and (F.atoms(a) & obs_names or F.atoms(b) & obs_names or F.has_opaque(b)):
                        bad.append((k, show_val(a)[:100], show_val(b)[:100]))
            ctx.ob("R-CONST", "induction-step", addp, fsite, not bad,
                   ("adding the stream's constant again changes the state: %s [path: %s]" % (bad[:3], pcs)) if bad else
                   "constant-stream state is a fixed point of add(x) up to the count (%d leaves) [path: %s]" % (len(before), pcs),
                   sample={"leaves": sorted(before)[:8]})
        elif p.status == "panic":
            if is_debug_only(p.info.get("span") or {}):
                continue
            ctx.ob("R-PANIC", "induction-step", addp, fsite, False, "add panics on a constant stream (%s) [path: %s]" % (p.info.get("kind"), pcs))
        else:
            ctx.ob("R-CONST", "induction-step", addp, fsite, False, str(p.info.get("why")), inc=True)


def generalise_counts(m, cell, leaf, weight_names=()):
    """copy of a concrete one-observation state with the count leaf replaced by a symbol n >= 1
    and every float leaf that depends on weights only replaced by a fresh positive atom"""
    c = Cell(deep(cell.v), root="g")

    def repl(path, x):
        if is_int(x) and (leaf is None or path == leaf):
            m.ienv.declare("n", 1, SYM_HI)
            return Lin.sym("n")
        if is_float(x) and not F.is_lit(x) and weight_names:
            at = F.atoms(x)
            if at and at <= set(weight_names):
                a = F.atom("W:" + path)
                m.order.set_nan(a, False)
                m.order.assume("Gt", a, F.ZERO, True)
                return a
        return None

    def walk(v, prefix):
        if isinstance(v, (VStruct, VTuple)):
            for i, x in enumerate(v.fields):
                nm = v.names[i] if isinstance(v, VStruct) and v.names and i < len(v.names) else str(i)
                path = "%s.%s" % (prefix, nm) if prefix else nm
                r = repl(path, x)
                if r is not None:
                    v.fields[i] = r
                else:
                    walk(x, path)
        elif isinstance(v, VArray):
            for i, x in enumerate(v.elems):
                path = "%s[%d]" % (prefix, i)
                r = repl(path, x)
                if r is not None:
                    v.elems[i] = r
                else:
                    walk(x, path)
    walk(c.v, "")
    return c


# ---- sentinel table (DESIGN Appendix B.1, transcribed from C16 and C10)

NANC, ZERO, ONE = "nan", "0", "1"


def sentinel_table(est_kind, N=None):
    """accessor -> {state: expected classes}; states: n0, n1, const (n>=1 constant stream),
    n2, n3 (generic states with that count).  'X' = exactly the observation, 'COUNT' = the count."""
    X = "X"
    mean_row = {"n0": {NANC}, "n1": {X}, "const": {X}}
    var_row = {"n0": {NANC}, "n1": {ZERO}, "const": {ZERO}}
    svar_row = {"n0": {NANC}, "n1": {NANC}, "n2": {"DEFINED"}, "n3": {"DEFINED"}}
    t = {}
    if est_kind == "Mean":
        t["mean"] = mean_row
    elif est_kind == "Variance":
        t.update({"mean": mean_row, "population_variance": var_row, "sample_variance": svar_row,
                  "variance_of_mean": var_row, "error": var_row})
    elif est_kind == "Skewness":
        t.update({"mean": mean_row, "population_variance": var_row, "sample_variance": svar_row,
                  "error_mean": var_row, "skewness": var_row})
    elif est_kind == "Kurtosis":
        t.update({"mean": mean_row, "population_variance": var_row, "sample_variance": svar_row,
                  "error_mean": var_row, "skewness": var_row, "kurtosis": var_row})
    elif est_kind == "Moments":
        t["mean"] = mean_row
        t["sample_variance"] = svar_row
        t["sample_skewness"] = {"n0": {NANC}, "n1": {ZERO}, "n2": {"DEFINED"}, "n3": {"DEFINED"}}
        t["sample_excess_kurtosis"] = {"n0": {NANC}, "n1": {NANC}, "n2": {NANC}, "n3": {NANC}, "n4": {"DEFINED"}}
        for p in range(0, (N or 4) + 1):
            if p == 0:
                row = {"n0": {ONE}, "n1": {ONE}, "const": {ONE}, "n2": {ONE}}
                srow = {"n0": {ZERO}, "n1": {ONE}, "const": {"count"}, "n2": {"lit:2.0"}}
            elif p == 1:
                row = {"n0": {ZERO}, "n1": {ZERO}, "const": {ZERO}, "n2": {ZERO}}
                srow = dict(row)
            else:
                row = dict(var_row)
                srow = {"n0": {ONE}, "n1": {ONE}, "const": {ONE}} if p == 2 else None
            t[("central_moment", p)] = row
            if srow is not None:
                t[("standardized_moment", p)] = srow
    elif est_kind == "WeightedMean":
        t["mean"] = {"n0": {NANC}, "n1": {X}, "n1w0": {NANC}, "const": {X}, "w0": {NANC}}
        t["sum_weights"] = {"n0": {ZERO}, "n1": {"W"}, "w0": {ZERO}}
    elif est_kind == "WeightedMeanWithError":
        t["weighted_mean"] = {"n0": {NANC}, "n1": {X}, "n1w0": {NANC}, "const": {X}, "w0": {NANC}}
        # a zero-weight observation is an observation: the unweighted statistics see it (state n1w0)
        t["unweighted_mean"] = dict(mean_row, n1w0={X})
        t["sum_weights"] = {"n0": {ZERO}, "n1": {"W"}, "n1w0": {ZERO}}
        t["sum_weights_sq"] = {"n0": {ZERO}, "n1": {"WW"}, "n1w0": {ZERO}}
        t["effective_len"] = {"n0": {ZERO}}
        t["population_variance"] = dict(var_row, n1w0={ZERO})
        t["sample_variance"] = dict(svar_row, n1w0={NANC})
        t["variance_of_weighted_mean"] = {"n0": {NANC}, "n1": {NANC}, "n1w0": {NANC}, "w0": {NANC}}
        t["error"] = {"n0": {NANC}, "n1": {NANC}, "n1w0": {NANC}, "w0": {NANC}}
    elif est_kind == "Covariance":
        t["mean_x"] = mean_row
        t["mean_y"] = {"n0": {NANC}, "n1": {"Y"}, "const": {"Y"}}
        for a in ("population_variance_x", "population_variance_y", "population_covariance"):
            t[a] = var_row
        for a in ("sample_variance_x", "sample_variance_y", "sample_covariance", "pearson"):
            t[a] = svar_row
    elif est_kind == "Min":
        t["min"] = {"n0": {"+inf"}, "n1": {X}, "const": {X}}
    elif est_kind == "Max":
        t["max"] = {"n0": {"-inf"}, "n1": {X}, "const": {X}}
    elif est_kind == "Quantile":
        t["quantile"] = {"n0": {NANC}, "n1": {X}}
    # Estimate::estimate() is a statistic accessor too: it reports the headline statistic
    head = {"Mean": "mean", "Variance": "population_variance", "Skewness": "skewness", "Kurtosis": "kurtosis",
            "Min": "min", "Max": "max", "Quantile": "quantile"}.get(est_kind)
    if head in t:
        t["estimate"] = t[head]
    return t


def r_sentinel(ctx, db, est, kind, N=None, weighted=False, ctor_args=None, states=("n0", "n1", "n1w0", "const", "n2", "n3", "n4", "w0"),
               only=None):
    table = sentinel_table(kind, N)
    leaf = count_leaf(ctx, db, est)
    n_cells = 0
    for acc, row in table.items():
        if only and (acc if isinstance(acc, str) else acc[0]) not in only:
            continue
        name, args = (acc, ()) if isinstance(acc, str) else (acc[0], (acc[1],))
        ap = est.m(name, None)
        if ap is None:
            # accessor absent in this configuration (feature-gated): not a violation of C16
            ctx.notes.append("accessor %s::%s not present in this cfg" % (est.path, name))
            continue
        for st, expect in row.items():
            if st not in states:
                continue
            n_cells += 1

            def mk_state(alg, st=st):
                m = alg.m
                ctor = list(ctor_args(m)) if ctor_args else []
                if st == "n0":
                    return alg.new("s", *ctor)
                if st in ("n1", "n1w0", "const"):
                    xs = add_atoms(m, est, "o")
                    if weighted:
                        if st == "n1w0":
                            xs = [xs[0], F.ZERO]
                            set_domain_facts(m, xs[:1])
                        else:
                            set_domain_facts(m, xs, positive=xs[1:])
                    else:
                        set_domain_facts(m, xs)
                    s = alg.new("s", *ctor)
                    alg.add(s, *xs)
                    if st == "const":
                        s = generalise_counts(m, s, leaf, {w[1] for w in xs[1:]} if weighted else ())
                    return s
                if st == "w0":
                    # several observations, all with weight zero: total weight (and sum of squares) 0
                    c = Cell(m.sym_value(est.ty(), "s", None, None, 2), root="s")
                    wl = weight_leaves(db, est)
                    _set_leaves(c.v, "", wl, F.ZERO)
                    for kk, vv in leaves(c.v):
                        if is_float(vv) and not F.is_lit(vv):
                            m.order.set_nan(vv, False)
                    return c
                k = int(st[1:])
                if leaf is None:
                    raise Unsupported("no count leaf")
                return Cell(m.sym_value(est.ty(), "s", None, {"s." + leaf: k}), root="s")
            exp = set()
            for e in expect:
                if e == "X":
                    exp.add(is_atom("o_" + first_param(db, est, 0)))
                elif e == "Y":
                    exp.add(is_atom("o_" + first_param(db, est, 1)))
                elif e == "DEFINED":
                    def defined(p, v):
                        return is_float(v) and not (F.is_lit(v) and (F.is_nan_lit(v) or abs(F.litval(v)) == float("inf")))
                    defined.__name__ = "a computed value (not the NaN sentinel)"
                    exp.add(defined)
                elif e == "W":
                    exp.add(is_atom("o_" + first_param(db, est, 1)))
                elif e == "WW":
                    wn = "o_" + first_param(db, est, 1)

                    def ww(p, v, wn=wn):
                        return v == F.mk("mul", F.atom(wn), F.atom(wn))
                    ww.__name__ = "w*w"
                    exp.add(ww)
                else:
                    exp.add(e)
            key = "%s%s@%s" % (name, "(%s)" % args[0] if args else "", st)
            eval_accessor_in_state(ctx, db, est, ap, mk_state, args, "R-SENTINEL", key, exp,
                                   what="%s::%s%s in state %s" % (est.name, name, "(%s)" % args[0] if args else "()", st))
    return n_cells


def _set_leaves(v, prefix, names, value):
    if isinstance(v, (VStruct, VTuple)):
        for i, x in enumerate(v.fields):
            nm = v.names[i] if isinstance(v, VStruct) and v.names and i < len(v.names) else str(i)
            path = "%s.%s" % (prefix, nm) if prefix else nm
            if path in names and is_float(x):
                v.fields[i] = value
            else:
                _set_leaves(x, path, names, value)
    elif isinstance(v, VArray):
        for i, x in enumerate(v.elems):
            _set_leaves(x, "%s[%d]" % (prefix, i), names, value)


def first_param(db, est, i):
    f = db.fns[est.add]
    names = param_names(f)
    return names.get(2 + i, "arg%d" % (2 + i))


# ---------------------------------------------------------------------------------------------
# Default::default() == new()

DEFAULT = "core::default::Default"


def r_default_is_new(ctx, db, est, new_args=None):
    dp = est.m("default", DEFAULT)
    if dp is None or est.new is None:
        return 0
    fsite = fn_site(db, dp)

    def setup(m):
        def thunk():
            d = call(m, dp, [])
            n = call(m, est.new, list(new_args(m)) if new_args else [])
            return leaf_map(d), leaf_map(n)
        return thunk, {}
    paths, stats = explore(db, setup, Config(release=True), 50)
    ctx.count_run(Run(dp, paths, stats, "default"))
    for p in paths:
        if p.status == "return":
            a, b = p.ret
            bad = exact_state_equal(p, a, b)
            ctx.ob("R-FORWARD", "default=new", dp, fsite, not bad,
                   ("Default::default() differs from new(): %s" % (bad[:3],)) if bad else "default() builds exactly the state of new() (%d leaves)" % len(b),
                   sample={"leaves": sorted(b)[:6]})
        elif p.status == "panic":
            ctx.ob("R-FORWARD", "default=new", dp, fsite, False, "default() panics: %s" % p.info.get("kind"))
        else:
            ctx.ob("R-FORWARD", "default=new", dp, fsite, False, str(p.info.get("why")), inc=True)
    return 1


# ---------------------------------------------------------------------------------------------
# histogram helpers

_HIST_ORDER_CACHE = {}


def hist_sym(m, est, name, consts=None, sorted_edges=True, strict=False):
    """abstract histogram: edges are non-NaN atoms in non-decreasing order (the from_ranges
    invariant), bins are bounded counters"""
    cell = Cell(m.sym_value(est.ty(), name, None, None, 0), root=name)
    lm = leaf_map(cell.v)
    edges = [v for k, v in sorted(lm.items(), key=lambda kv: leaf_index(kv[0])) if is_float(v)]
    key = (tuple(edges), sorted_edges, strict)
    if not m.order.nodes and key in _HIST_ORDER_CACHE:
        # the transitive closure over a long sorted chain is expensive: computed once per run
        m.order = _HIST_ORDER_CACHE[key].clone()
        return cell, edges
    pristine = not m.order.nodes
    for e in edges:
        m.order.set_nan(e, False)
    if sorted_edges:
        for a, b in zip(edges, edges[1:]):
            m.order.assume("Lt" if strict else "Le", a, b, True)
    if pristine:
        _HIST_ORDER_CACHE[key] = m.order.clone()
    return cell, edges


def leaf_index(k):
    import re
    mm = re.search(r"\[(\d+)\]$", k)
    return (k.split("[")[0], int(mm.group(1)) if mm else -1)


def hist_empty_like(alg, full):
    """a freshly constructed histogram over the same edges: same range values, all bins zero"""
    v = deep(full.v)

    def zero(v):
        if isinstance(v, VStruct):
            for i, x in enumerate(v.fields):
                if isinstance(x, VArray) and x.elems and is_int(x.elems[0]):
                    v.fields[i] = VArray([0 for _ in x.elems])
                else:
                    zero(x)
    zero(v)
    return Cell(v, root="empty")


def r_hist_merge_identity(ctx, db, est, ln, consts=None):
    mp = est.merge
    fsite = fn_site(db, mp)
    for which in ("merge", "add_assign"):
        fnp = mp if which == "merge" else est.m("add_assign")
        if fnp is None:
            continue
        for side in ("other-empty", "self-empty"):
            def setup(m, side=side, fnp=fnp):
                alg = Alg(m, est)
                full, edges = hist_sym(m, est, "a")
                empty = hist_empty_like(alg, full)
                ref = Cell(deep(full.v), root="ref")

                def thunk():
                    if side == "other-empty":
                        call(m, fnp, [VRef(full, (), True), VRef(empty, (), False)])
                        res = full
                    else:
                        call(m, fnp, [VRef(empty, (), True), VRef(full, (), False)])
                        res = empty
                    return leaf_map(res.v), leaf_map(ref.v)
                return thunk, {"a": (full, deep(full.v)), "empty": (empty, deep(empty.v))}
            # edges may be infinite (from_ranges documents -inf/+inf outer limits): no finite-only folding
            paths, stats = explore(db, setup, Config(release=True, finite=False, consts=consts or {}), 500)
            ctx.count_run(Run(fnp, paths, stats, side))
            key = "hist-%s-identity:%s:LEN=%d" % (which, side, ln)
            for p in paths:
                pcs = pc_show(p.pc) or "unconditional"
                if p.status == "return":
                    got, want = p.ret
                    bad = exact_state_equal(p, got, want)
                    ctx.ob("R-IDENT", key, fnp, fn_site(db, fnp), not bad,
                           ("merging an all-zero histogram over the same edges changes the state: %s [path: %s]" % (bad[:3], pcs)) if bad
                           else "edges and all %d counts unchanged [path: %s]" % (ln, pcs))
                    ch = changed_leaves(p, "a" if side == "self-empty" else "empty")
                    ctx.ob("R-FRAME", "hist-%s:argument-untouched:%s:LEN=%d" % (which, side, ln), fnp, fn_site(db, fnp), not ch,
                           "argument modified: %s" % sorted(ch)[:4] if ch else "argument unchanged", nontrivial=False)
                elif p.status == "panic":
                    if is_debug_only(p.info.get("span") or {}):
                        continue
                    ctx.ob("R-IDENT", key, fnp, fn_site(db, fnp), False,
                           "merging histograms over identical edges panics (%s at %s) [path: %s]" % (p.info.get("kind"), site(p.info.get("span")), pcs))
                else:
                    ctx.ob("R-IDENT", key, fnp, fn_site(db, fnp), False, str(p.info.get("why")), inc=True)


CLONE = "core::clone::Clone"


def r_derived_clone(ctx, db, est):
    """the clone used by merge's empty-self path is the derived, field-wise one (exact copy)"""
    cp = est.m("clone", CLONE)
    if cp is None:
        ctx.ob("R-IDENT", "clone-derived", est.path, "-", False, "no Clone impl found", inc=True)
        return
    f = db.fns[cp]
    fsite = fn_site(db, cp)

    def build(m):
        c = sym_self(m, est, int_min=0)
        return [self_ref(c, False)], {"self": c}
    run = run_entry(db, cp, build, Config(release=True))
    ctx.count_run(run)
    for p in run.paths:
        if p.status == "return":
            a = init_leaves(p)
            b = leaf_map(p.ret)
            bad = exact_state_equal(p, b, a)
            ctx.ob("R-IDENT", "clone-exact", cp, fsite, not bad,
                   "clone() (%s) %s" % ("derived" if f.get("impl_derived") else "hand-written",
                                        "copies every leaf exactly" if not bad else "changes %s" % (bad[:3],)))
        else:
            ctx.ob("R-IDENT", "clone-exact", cp, fsite, False, "clone does not return: %s" % p.status, inc=p.status == "inconclusive")


def r_clone_from_exact(ctx, db, est, make_state, tag=""):
    """a hand-written `clone_from(&mut dst, &src)` (the derive does not generate one) must leave dst
    an exact copy of src and src untouched, whatever dst held before"""
    cf = est.m("clone_from", CLONE)
    if cf is None or cf not in db.fns:
        return 0
    fsite = fn_site(db, cf)

    def setup(m):
        dst = make_state(m, "dst")
        src = make_state(m, "src")
        want = leaf_map(deep(src.v))

        def thunk():
            call(m, cf, [VRef(dst, (), True), VRef(src, (), False)])
            return leaf_map(dst.v), want, leaf_map(src.v)
        return thunk, {}
    paths, stats = explore(db, setup, Config(release=True, finite=False), 400)
    ctx.count_run(Run(cf, paths, stats, "clone_from"))
    n = 0
    for p in paths:
        pcs = pc_show(p.pc) or "unconditional"
        if p.status == "return":
            got, want, src_after = p.ret
            bad = exact_state_equal(p, got, want) or exact_state_equal(p, src_after, want)
            n += 1
            ctx.ob("R-IDENT", "clone_from-exact" + tag, cf, fsite, not bad,
                   "clone_from leaves an exact copy of its argument [path: %s]" % pcs if not bad else
                   "after clone_from the target differs from its argument: %s [path: %s]" % (bad[:3], pcs))
        elif p.status == "panic" and is_debug_only(p.info.get("span") or {}):
            continue
        else:
            ctx.ob("R-IDENT", "clone_from-exact" + tag, cf, fsite, False, "clone_from: %s %s" % (p.status, p.info.get("kind") or p.info.get("why")),
                   inc=p.status == "inconclusive")
    return n


def r_no_interior_mutability(ctx, db):
    """no state struct has a Cell/RefCell/Atomic/Mutex field, the crate forbids unsafe code and has
    no statics: `&self`/`&Self` arguments cannot be modified and methods are functions of their
    arguments"""
    bad = []
    for path, a in db.adts.items():
        for v in a["variants"]:
            for f in v["fields"]:
                s = f["ty"]["s"]
                if any(x in s for x in ("Cell<", "RefCell<", "Atomic", "Mutex<", "RwLock<", "UnsafeCell", "OnceCell", "OnceLock", "*mut", "*const")):
                    bad.append("%s.%s: %s" % (path, f["name"], s))
    ctx.ob("R-FRAME", "no-interior-mutability", "-", "-", not bad,
           "interior mutability in state: %s" % bad if bad else "no field of any of the %d ADTs is interiorly mutable or a raw pointer" % len(db.adts))
    lint = db.crates["average"]["unsafe_code_lint"]
    ctx.ob("R-FRAME", "forbid-unsafe", "-", "-", lint in ("Forbid", "Deny"),
           "crate-level lint level for unsafe_code is %s" % lint)
    st = [s["path"] for s in db.statics if s.get("crate") == "average"]
    ctx.ob("R-FRAME", "no-statics", "-", "-", not st, "statics: %s" % st if st else "the crate defines no static item")


# ---------------------------------------------------------------------------------------------
# R-BINOM: the binomial iterator of define_moments! yields Pascal's triangle without overflow


def r_binom(ctx, db, moments_path, N):
    """IterBinomial::new(p) then next() p+1 times must give C(p, 0..p), then None, for p <= N;
    every intermediate product fits in u64 (the overflow assertions are part of the MIR)"""
    import math
    mod = moments_path.rsplit("::", 1)[0] if "::" in moments_path else ""
    base = (mod + "::" if mod else "") + "IterBinomial"
    newp = base + "::new"
    nextp = "<%s as core::iter::traits::iterator::Iterator>::next" % base
    if newp not in db.fns or nextp not in db.fns:
        ctx.ob("R-BINOM", "present", moments_path, "-", False, "binomial iterator of %s not found (%s)" % (moments_path, newp), inc=True)
        return 0
    n = 0
    # rows up to N are used by this instantiation; rows up to 62 are what the u64 recurrence of the
    # pinned tree computes without overflow, i.e. what any other legal `define_moments!(T, N)` relies on
    for p in range(0, max(N, 62) + 1):
        m = Machine(db, [], Config(release=False))
        try:
            it = Cell(call(m, newp, [p]), root="it")
            got = []
            for _ in range(p + 2):
                o = call(m, nextp, [VRef(it, (), True)])
                got.append(simp(o.fields[0]) if o.variant == 1 else None)
            want = [math.comb(p, k) for k in range(p + 1)] + [None]
            ok = got == want
            detail = "binomial coefficients of order %d are %s" % (p, got[:-1]) if ok else "order %d: iterator yields %s, Pascal's triangle has %s" % (p, got, want)
        except PathEnd as e:
            ok = False
            detail = "order %d: %s (%s at %s)" % (p, e.status, e.info.get("kind"), site(e.info.get("span")))
        except Unsupported as e:
            ctx.ob("R-BINOM", "row:%d" % p, nextp, fn_site(db, nextp), False, str(e), inc=True)
            continue
        n += 1
        ctx.ob("R-BINOM", "row:%d" % p, nextp, fn_site(db, nextp), ok, detail, sample={"p": p})
    return n
