"""Rules for Min / Max (C14)."""
import fnode as F
from lin import Lin, simp
from machine import (Machine, Config, Cell, VStruct, VTuple, VArray, VRef, VOpaque, deep, explore, is_float,
                     is_int, PathEnd, Unsupported)
from scen import Est, Run, Alg, leaves, leaf_map, show_val, call, site, is_debug_only, pc_show
import rules as R


def resolve(m, n):
    """reduce f64::min / f64::max nodes to one of their operands (IEEE minNum/maxNum: the non-NaN
    operand when exactly one is NaN), deciding by the path's order facts"""
    if not is_float(n):
        return n
    if n[0] == "fn" and n[1] in ("min", "max"):
        a, b = resolve(m, n[2]), resolve(m, n[3])
        if m.truth(("isnan", a), None, "minmax"):
            return b
        if m.truth(("isnan", b), None, "minmax"):
            return a
        if n[1] == "min":
            return a if m.truth(("fcmp", "Le", a, b), None, "minmax") else b
        return a if m.truth(("fcmp", "Ge", a, b), None, "minmax") else b
    return n


def spec_fold(m, cur, v, is_min):
    """the extreme of {cur, v} ignoring NaN v; cur is never NaN"""
    if m.truth(("isnan", v), None, "spec"):
        return cur
    if is_min:
        return v if m.truth(("fcmp", "Lt", v, cur), None, "spec") else cur
    return v if m.truth(("fcmp", "Gt", v, cur), None, "spec") else cur


def same_number(m, a, b):
    if a == b:
        return True
    if not (is_float(a) and is_float(b)):
        return False
    return m.order.decide("Eq", a, b) is True


def r_minmax(ctx, db, est, is_min):
    neutral = F.INF if is_min else F.NINF
    acc = est.m("min" if is_min else "max", None)
    fsite = R.fn_site(db, est.add)
    # neutral start
    m0 = Machine(db, [], Config(release=True, finite=False))
    v = call(m0, est.new, [])
    lm = leaf_map(v)
    ok = len(lm) == 1 and list(lm.values())[0] == neutral
    ctx.ob("R-NEUTRAL", "new:neutral", est.new, R.fn_site(db, est.new), ok,
           "new() holds %s (the identity of the fold is %s)" % ({k: show_val(x) for k, x in lm.items()}, show_val(neutral)))
    (leaf,) = list(lm) if len(lm) == 1 else ("x",)
    # add
    for which in ("add", "merge"):
        fp = est.add if which == "add" else est.merge
        if fp is None:
            ctx.floor("%s::%s present" % (est.path, which), 0, 1)
            continue

        def setup(m, which=which, fp=fp):
            alg = Alg(m, est)
            s = alg.sym("self")
            R.nonnan_state(m, s)
            cur = leaf_map(s.v)[leaf]
            if which == "add":
                v = F.atom("v")
                arg = v
            else:
                o = alg.sym("other")
                R.nonnan_state(m, o)
                v = leaf_map(o.v)[leaf]
                arg = VRef(o, (), False)

            def thunk():
                call(m, fp, [VRef(s, (), True), arg])
                got = resolve(m, leaf_map(s.v)[leaf])
                want = spec_fold(m, cur, v, is_min)
                return got, want
            return thunk, {}
        paths, stats = explore(db, setup, Config(release=True, finite=False), 500)
        ctx.count_run(Run(fp, paths, stats, which))
        for p in paths:
            pcs = pc_show(p.pc) or "unconditional"
            if p.status == "return":
                got, want = p.ret
                ok = same_number(p.machine, got, want)
                inc = not ok and (not is_float(got) or F.has_opaque(got))
                ctx.ob("R-ORDCASE", "%s:fold" % which, fp, R.fn_site(db, fp), ok,
                       "after %s the state is %s; the %s of the values absorbed so far is %s [path: %s]" % (
                           which, show_val(got)[:60], "smallest" if is_min else "largest", show_val(want)[:60], pcs),
                       sample={"state": show_val(got)[:80], "spec": show_val(want)[:80], "path_condition": pcs}, inc=inc)
            elif p.status == "panic":
                if is_debug_only(p.info.get("span") or {}):
                    continue
                ctx.ob("R-PANIC", "%s:%s" % (which, p.info.get("kind")), fp, R.fn_site(db, fp), False, "%s panics: %s [path: %s]" % (which, p.info.get("kind"), pcs))
            else:
                ctx.ob("R-ORDCASE", "%s:fold" % which, fp, R.fn_site(db, fp), False, str(p.info.get("why")), inc=True)
    # from_value / accessor / estimate are exact copies
    fv = est.m("from_value", None)
    if fv:
        m1 = Machine(db, [], Config(release=True, finite=False))
        v = F.atom("v")
        st = call(m1, fv, [v])
        ok = list(leaf_map(st).values()) == [v]
        ctx.ob("R-IDENT", "from_value", fv, R.fn_site(db, fv), ok, "from_value(v) stores exactly v" if ok else "from_value(v) stores %s" % show_val(st))
    for name, p in (("accessor", acc), ("estimate", est.m("estimate", "traits::Estimate"))):
        if p is None:
            ctx.floor("%s::%s present" % (est.path, name), 0, 1)
            continue
        m2 = Machine(db, [], Config(release=True, finite=False))
        s = Alg(m2, est).sym("self")
        r = call(m2, p, [VRef(s, (), False)])
        ok = r == leaf_map(s.v)[leaf]
        ctx.ob("R-IDENT", name, p, R.fn_site(db, p), ok, "%s returns exactly the stored extreme" % p.split("::")[-1] if ok else "returns %s" % show_val(r)[:80])
