"""E1 — partial evaluator over the MIR facts.

One `Machine` run follows ONE path through an entry function (crate-local callees are inlined,
library callees go through the summaries at the bottom).  Whenever a branch cannot be decided from
the abstract state, the machine asks its decision script; `explore()` re-runs the entry with every
script (depth-first), so the set of runs is the set of feasible abstract paths.

Data the properties quantify over (observations, weights, edges, p) is never given a value: floats
are residual DAG nodes over atoms (fnode), integers are affine forms over bounded symbols (lin).
"""
import copy

import fnode as F
from fnode import Ctx
from lin import Lin, IntEnv, simp, INF
from order import OrderStore, Infeasible

FLOAT_TAGS = {"atom", "lit", "i2f", "add", "sub", "mul", "div", "neg", "fn", "opq"}
COND_TAGS = {"fcmp", "icmp", "not", "and", "or", "isnan", "bopq", "ovf", "beq"}

INT_RANGE = {
    "u8": (0, 2**8 - 1), "u16": (0, 2**16 - 1), "u32": (0, 2**32 - 1), "u64": (0, 2**64 - 1),
    "usize": (0, 2**64 - 1), "u128": (0, 2**128 - 1),
    "i8": (-2**7, 2**7 - 1), "i16": (-2**15, 2**15 - 1), "i32": (-2**31, 2**31 - 1),
    "i64": (-2**63, 2**63 - 1), "isize": (-2**63, 2**63 - 1), "i128": (-2**127, 2**127 - 1),
}
# symbolic counters are assumed not to be within 2^62 of wrapping (DESIGN §2.6)
SYM_HI = 2**62


def is_float(v):
    return isinstance(v, tuple) and v and v[0] in FLOAT_TAGS


def is_cond(v):
    return isinstance(v, bool) or (isinstance(v, tuple) and v and v[0] in COND_TAGS)


def is_int(v):
    return (isinstance(v, int) and not isinstance(v, bool)) or isinstance(v, Lin)


class Cell:
    __slots__ = ("v", "root")

    def __init__(self, v=None, root=None):
        self.v = v
        self.root = root


class VStruct:
    __slots__ = ("path", "variant", "fields", "names", "vname")

    def __init__(self, path, variant, fields, names=None, vname=None):
        self.path = path
        self.variant = variant
        self.fields = fields
        self.names = names
        self.vname = vname

    def __repr__(self):
        return "%s::%s%r" % (self.path, self.vname or self.variant, self.fields)


class VTuple:
    __slots__ = ("fields",)

    def __init__(self, fields):
        self.fields = fields

    def __repr__(self):
        return "(%s)" % ", ".join(map(repr, self.fields))


class VArray:
    __slots__ = ("elems",)

    def __init__(self, elems):
        self.elems = elems

    def __repr__(self):
        return "[%s]" % ", ".join(map(repr, self.elems))


class VRef:
    __slots__ = ("cell", "path", "mut", "lo", "hi")

    def __init__(self, cell, path=(), mut=False, lo=None, hi=None):
        self.cell = cell
        self.path = path
        self.mut = mut
        self.lo = lo
        self.hi = hi

    def __repr__(self):
        return "&%s%s%s" % (self.cell.root or "tmp", "".join(".%s" % p for p in self.path),
                            "" if self.lo is None else "[%s..%s]" % (self.lo, self.hi))


class VOpaque:
    __slots__ = ("ty", "tag")

    def __init__(self, ty, tag):
        self.ty = ty
        self.tag = tag

    def __repr__(self):
        return "<opaque %s:%s>" % (self.tag, self.ty if isinstance(self.ty, str) else self.ty.get("s"))


class VBits(VOpaque):
    """the bit pattern of a (non-NaN) float residual, as u64 (`signed` False) or reinterpreted as i64:
    an unknown integer whose ORDER against another bit pattern is known — equal to the numeric order for
    two non-negative floats, REVERSED for two negative ones (sign-magnitude), and decided by the sign
    bit otherwise (set = negative as i64, large as u64)"""
    __slots__ = ("src", "signed", "maybe_nan")

    def __init__(self, src, signed, tag, maybe_nan=False):
        VOpaque.__init__(self, "i64" if signed else "u64", tag)
        self.src = src
        self.signed = signed
        self.maybe_nan = maybe_nan      # then only equality with a non-NaN constant pattern is decided


def bits_compare(op, a, b):
    """condition tree for `a op b` on two bit patterns of the same signedness (op in Lt, Le, Gt, Ge, Eq, Ne)"""
    x, y = a.src, b.src
    if op in ("Eq", "Ne"):
        e = ("fcmp", "Eq", x, y)            # up to the sign of zero
        return e if op == "Eq" else ("not", e)
    if op in ("Gt", "Ge"):
        return bits_compare({"Gt": "Lt", "Ge": "Le"}[op], b, a)
    sx, sy = ("fcmp", "Lt", x, F.ZERO), ("fcmp", "Lt", y, F.ZERO)
    both_pos = ("and", ("not", sx), ("not", sy))
    both_neg = ("and", sx, sy)
    mixed_true = ("and", sx, ("not", sy)) if a.signed else ("and", ("not", sx), sy)
    return ("or", ("and", both_pos, ("fcmp", op, x, y)), ("or", ("and", both_neg, ("fcmp", op, y, x)), mixed_true))


class VModel:
    """library object with modelled behaviour (iterators)"""
    __slots__ = ("kind", "st")

    def __init__(self, kind, **st):
        self.kind = kind
        self.st = st

    def __repr__(self):
        return "<%s %r>" % (self.kind, self.st)


class VFn:
    __slots__ = ("ref",)

    def __init__(self, ref):
        self.ref = ref

    def __repr__(self):
        return "fn(%s)" % self.ref["fn"]


UNIT = VTuple([])


def deep(v):
    """value copy (Copy/Clone semantics): containers are duplicated, references are shared"""
    if isinstance(v, VStruct):
        return VStruct(v.path, v.variant, [deep(x) for x in v.fields], v.names, v.vname)
    if isinstance(v, VTuple):
        return VTuple([deep(x) for x in v.fields])
    if isinstance(v, VArray):
        return VArray([deep(x) for x in v.elems])
    if isinstance(v, VModel):
        return VModel(v.kind, **{k: deep(x) for k, x in v.st.items()})
    return v


class PathEnd(Exception):
    def __init__(self, status, info=None):
        self.status = status
        self.info = info or {}


Unsupported = F.Unsupported
EVAL_DEBUG_ASSERTS = True
import os as _os
import time as _time
# wall-clock budget of one exploration (the largest on the pinned tree, Quantile::add, takes ~30 s):
# a loop the abstract state cannot bound must end the exploration as undecided, not hang the check
EXPLORE_SECONDS = int(_os.environ.get("AVG_EXPLORE_SECONDS", "120"))
# wall-clock budget for ONE path (a loop the evaluator cannot bound keeps stepping with ever larger
# residuals; the path is then undecided, not the whole run stuck)
PATH_SECONDS = int(_os.environ.get("AVG_PATH_SECONDS", "60"))
# wall-clock budget for one check run (all explorations together): the pinned tree needs 30 s (quick) to 130 s
# (thorough C20); an idiom that makes every exploration hit its own budget must not add up to an hour
RUN_SECONDS = int(_os.environ.get("AVG_RUN_SECONDS", "900"))
_RUN_T0 = _time.time() if "_time" in globals() else None


class Config:
    def __init__(self, **kw):
        self.finite = kw.get("finite", True)        # residuals are finite (property domain)
        self.max_items = kw.get("max_items", 2)     # items drawn from an opaque iterator
        self.max_steps = kw.get("max_steps", 200000)
        self.max_depth = kw.get("max_depth", 24)
        # `release=True` asks for release-build semantics of `cfg!(debug_assertions)`.  The conditions of
        # debug_assert*! are evaluated nevertheless (EVAL_DEBUG_ASSERTS): a debug build that panics where
        # the release build computes the right answer still breaks the property for that build, and the
        # rules report such paths as R-DASSERT instead of the rule they interrupt.
        self.release = kw.get("release", False) and not EVAL_DEBUG_ASSERTS
        self.consts = kw.get("consts", {})          # const-generic bindings, e.g. {"LEN": 3}
        self.nonneg_atoms = set(kw.get("nonneg_atoms", ()))
        self.sorted_slices = kw.get("sorted_slices", True)
        self.bsearch_contract = kw.get("bsearch_contract", "documented")
        self.fold_inexact = kw.get("fold_inexact", False)


class Machine:
    def __init__(self, db, script=(), cfg=None):
        self.db = db
        self.cfg = cfg or Config()
        self.script = list(script)
        self.trace = []
        self.ienv = IntEnv()
        self.order = OrderStore()
        self.fctx = Ctx(finite=self.cfg.finite, nonzero=self._nonzero, fold_inexact=self.cfg.fold_inexact)
        F.FOLD_INEXACT[0] = bool(self.cfg.fold_inexact)
        self.pc = []
        self.writes = []
        self.calls = []
        self.unmodelled = []
        self.notes = []
        self.steps = 0
        self.deadline = _time.time() + PATH_SECONDS
        self.depth = 0
        self.fresh = 0
        self.stack = []
        self.tracked = {}
        self.inconclusive = None
        self.cmp_log = []
        self.zero_atoms = {}
        self.div_log = []
        self.fncall_log = []

    # ------------------------------------------------------------------ decisions
    def choose(self, arity, info):
        i = len(self.trace)
        c = self.script[i] if i < len(self.script) else 0
        if c >= arity:
            raise PathEnd("infeasible", {"why": "script choice out of range"})
        self.trace.append((c, arity, info))
        return c

    def _nonzero(self, node):
        """is float node known to be non-zero?"""
        if F.is_lit(node):
            v = F.litval(node)
            return v != 0.0 and v == v
        if node[0] == "i2f":
            lo, hi = self.ienv.bounds(Lin.from_key(node[1]))
            return lo > 0 or hi < 0
        d = self.order.decide("Ne", node, F.ZERO) if node in self.order.idx else None
        if d is True and self.order.nan_status(node) is False:
            return True
        return False

    def site(self, span):
        return span

    def truth(self, c, span, what="branch"):
        """evaluate a condition to a python bool, forking through the decision script if needed"""
        if isinstance(c, bool):
            return c
        k = c[0]
        if k == "not":
            return not self.truth(c[1], span, what)
        if k == "and":
            return self.truth(c[1], span, what) and self.truth(c[2], span, what)
        if k == "or":
            return self.truth(c[1], span, what) or self.truth(c[2], span, what)
        if k == "beq":
            return self.truth(c[1], span, what) == self.truth(c[2], span, what)
        if k == "fcmp":
            _, op, a, b = c
            self.cmp_log.append((op, a, b, span))
            if self.zero_atoms:
                # canonicalise under the path's `atom == 0` facts so that e.g. (w1 + w2) with
                # w1 == 0 is compared as w2
                a = F.subst(a, self.zero_atoms)
                b = F.subst(b, self.zero_atoms)
                if F.is_lit(a) and F.is_lit(b):
                    x, y = F.litval(a), F.litval(b)
                    return {"Eq": x == y, "Lt": x < y, "Le": x <= y, "Ne": x != y, "Ge": x >= y, "Gt": x > y}[op]
            if F.has_opaque(a) or F.has_opaque(b):
                t = self.choose(2, ("opaque-float-cmp", span)) == 0
                self.mark_inconclusive("branch on a float produced by an unmodelled call", span)
                return t
            d = self.order.decide(op, a, b)
            if d is not None:
                return d
            d = self._decide_by_sign(op, a, b)
            if d is not None:
                return d
            t = self.choose(2, ("fcmp", op, span)) == 0
            try:
                self.order.assume(op, a, b, t)
                self._propagate_zero_sum(op, a, b, t)
            except Infeasible:
                raise PathEnd("infeasible")
            self.pc.append(("fcmp", op, a, b, t, span))
            if ((op == "Eq" and t) or (op == "Ne" and not t)):
                z = a if F.is_zero(b) else (b if F.is_zero(a) else None)
                while z is not None and z[0] in ("neg", "fn") and (z[0] == "neg" or (z[1] == "abs" and len(z) == 3)):
                    self.zero_atoms[z] = F.ZERO           # |x| == 0 and -x == 0 say x == 0
                    z = z[1] if z[0] == "neg" else z[2]
                if z is not None and z[0] == "atom":
                    self.zero_atoms[z] = F.ZERO
            return t
        if k == "isnan":
            a = c[1]
            st = self.order.nan_status(a)
            if st is not None:
                return st
            t = self.choose(2, ("isnan", span)) == 0
            try:
                self.order.set_nan(a, t)
            except Infeasible:
                raise PathEnd("infeasible")
            self.pc.append(("isnan", a, t, span))
            return t
        if k == "icmp":
            _, op, a, b = c
            d = self.ienv.cmp(op, a, b)
            if d is not None:
                return d
            t = self.choose(2, ("icmp", op, span)) == 0
            self.ienv.assume(op, a, b, t)
            # the refinement may not be expressible; re-check for contradiction
            d2 = self.ienv.cmp(op, a, b)
            if d2 is not None and d2 != t:
                raise PathEnd("infeasible")
            self.pc.append(("icmp", op, simp(a), simp(b), t, span))
            return t
        if k == "ovf":
            _, res, lo, hi = c
            blo, bhi = self.ienv.bounds(res)
            if blo >= lo and bhi <= hi:
                return False
            if bhi < lo or blo > hi:
                return True
            # fork: overflow or not
            t = self.choose(2, ("ovf", span)) == 0
            if not t:
                self.ienv.assume("Ge", res, lo, True)
                self.ienv.assume("Le", res, hi, True)
            else:
                if blo >= lo:
                    self.ienv.assume("Gt", res, hi, True)
                elif bhi <= hi:
                    self.ienv.assume("Lt", res, lo, True)
            self.pc.append(("ovf", simp(res), t, span))
            return t
        if k == "bopq":
            t = self.choose(2, ("opaque-bool", span)) == 0
            self.mark_inconclusive("branch on an unmodelled boolean (%s)" % (c[1],), span)
            # visible in the path condition: what a rule finds on such a path rests on an unknown answer
            self.pc.append(("bopq", c[1], t, span))
            return t
        raise Unsupported("cond %r" % (k,))

    def _propagate_zero_sum(self, op, a, b, t):
        """(p + q == 0) with p, q >= 0 forces p == 0 and q == 0"""
        if not ((op == "Eq" and t) or (op == "Ne" and not t)):
            return
        x = a if F.is_zero(b) else (b if F.is_zero(a) else None)
        if x is None or x[0] != "add":
            return
        from sign import SignEnv, is_nonneg
        se = SignEnv(self, {})
        if is_nonneg(se.of(x[1])) and is_nonneg(se.of(x[2])) and self.cfg.finite:
            for part in (x[1], x[2]):
                if not F.is_lit(part):
                    self.order.assume("Eq", part, F.ZERO, True)
                    self._propagate_zero_sum("Eq", part, F.ZERO, True)

    def _decide_by_sign(self, op, a, b):
        """comparison of a residual with literal zero decided by the sign domain (e.g. a sum of
        positive accumulators is not zero)"""
        if F.is_zero(b):
            x, flip = a, False
        elif F.is_zero(a):
            x, flip = b, True
        else:
            return None
        if F.is_lit(x) or x[0] == "atom":
            return None
        from sign import SignEnv
        s = SignEnv(self, {}).of(x)
        if s == "any":
            return None
        if flip:
            s = {"pos": "neg", "neg": "pos", "nonneg": "nonpos", "nonpos": "nonneg", "zero": "zero"}[s]
        table = {
            "pos": {"Eq": False, "Ne": True, "Lt": False, "Le": False, "Gt": True, "Ge": True},
            "neg": {"Eq": False, "Ne": True, "Lt": True, "Le": True, "Gt": False, "Ge": False},
            "zero": {"Eq": True, "Ne": False, "Lt": False, "Le": True, "Gt": False, "Ge": True},
            "nonneg": {"Lt": False, "Ge": True},
            "nonpos": {"Gt": False, "Le": True},
        }
        if not self.cfg.finite:
            return None
        return table[s].get(op)

    def mark_inconclusive(self, why, span=None):
        if self.inconclusive is None:
            self.inconclusive = (why, span)

    # ------------------------------------------------------------------ symbolic values
    def const_val(self, cj):
        if "v" in cj:
            return cj["v"]
        if "param" in cj:
            n = cj["param"]
            if n in self.cfg.consts:
                return self.cfg.consts[n]
            raise Unsupported("unbound const parameter %s" % n)
        if "uneval" in cj:
            p = cj["uneval"]
            f = self.db.fns.get(p)
            if f is None:
                # generic anon const paths are printed with their parent's generics
                raise Unsupported("anon const %s not in facts" % p)
            v = self.call_local(f, [], None)
            v = simp(v)
            if not isinstance(v, int):
                raise Unsupported("anon const %s did not evaluate" % p)
            return v
        raise Unsupported("const %r" % (cj,))

    def new_name(self, hint):
        self.fresh += 1
        return "%s~%d" % (hint, self.fresh)

    def sym_value(self, ty, name, subst=None, int_bounds=None, int_min=None):
        """fresh abstract value of type `ty` (type JSON) whose leaves are named after `name`"""
        k = ty["k"]
        if k == "prim":
            s = ty["s"]
            if s == "f64" or s == "f32":
                return F.atom(name)
            if s in INT_RANGE:
                lo, hi = INT_RANGE[s]
                hi = min(hi, SYM_HI)
                lo = max(lo, -SYM_HI)
                if int_bounds and name in int_bounds:
                    b = int_bounds[name]
                    if isinstance(b, int):
                        return b
                    lo, hi = max(lo, b[0]), min(hi, b[1])
                elif int_min is not None:
                    lo = max(lo, int_min)
                self.ienv.declare(name, lo, hi)
                return Lin.sym(name)
            if s == "bool":
                return ("bopq", name)
            return VOpaque(ty, name)
        if k == "array":
            n = self.const_val(self._subst_const(ty["len"], subst))
            return VArray([self.sym_value(ty["elem"], "%s[%d]" % (name, i), subst, int_bounds, int_min) for i in range(n)])
        if k == "tuple":
            return VTuple([self.sym_value(t, "%s.%d" % (name, i), subst, int_bounds, int_min) for i, t in enumerate(ty["elems"])])
        if k == "ref":
            to = ty["to"]
            if to["k"] in ("slice",) or (to["k"] == "prim" and to["s"] == "str"):
                return VOpaque(ty, name)
            c = Cell(self.sym_value(to, name if name.startswith("*") else "*" + name, subst, int_bounds, int_min), root=None)
            return VRef(c, (), ty["mut"])
        if k == "adt":
            a = self.db.adts.get(ty["path"])
            if a is None or a["kind"] != "struct":
                return VOpaque(ty, name)
            sub = dict(subst or {})
            for g, arg in zip(a["generics"], [x for x in ty["args"] if x.get("k") != "region"]):
                sub[g["name"]] = arg
            v = a["variants"][0]
            fields = [self.sym_value(self._subst_ty(f["ty"], sub), "%s.%s" % (name, f["name"]), sub, int_bounds, int_min) for f in v["fields"]]
            return VStruct(ty["path"], 0, fields, [f["name"] for f in v["fields"]], v["name"])
        if k == "param" and subst and ty["name"] in subst:
            tgt = subst[ty["name"]]
            if not (tgt.get("k") == "param" and tgt.get("name") == ty["name"]):
                return self.sym_value(tgt, name, None, int_bounds, int_min)
        return VOpaque(ty, name)

    def _subst_const(self, cj, subst):
        if subst and "param" in cj and cj["param"] in subst:
            s = subst[cj["param"]]
            if s.get("k") == "const":
                return s["v"]
        return cj

    def _subst_ty(self, ty, subst):
        if not subst:
            return ty
        if ty["k"] == "param" and ty["name"] in subst:
            return subst[ty["name"]]
        return ty

    # ------------------------------------------------------------------ memory
    def read_loc(self, cell, path):
        v = cell.v
        for p in path:
            if isinstance(v, VStruct) or isinstance(v, VTuple):
                v = v.fields[p]
            elif isinstance(v, VArray):
                if not isinstance(p, int) or p < 0 or p >= len(v.elems):
                    raise Unsupported("array index %r out of modelled range %d" % (p, len(v.elems)))
                v = v.elems[p]
            elif isinstance(v, VOpaque):
                return VOpaque("?", "%s.%s" % (v.tag, p))
            elif isinstance(v, VModel):
                raise Unsupported("projection into library object %s" % v.kind)
            else:
                raise Unsupported("projection %r into %r" % (p, type(v).__name__))
        return v

    def write_loc(self, cell, path, val, span):
        if cell.root is not None:
            old = None
            try:
                old = self.read_loc(cell, path)
            except Unsupported:
                pass
            self.writes.append({"root": cell.root, "path": path, "old": old, "new": val, "span": span,
                                "pc": len(self.pc), "seq": self.steps, "depth": self.depth,
                                "fn": self.stack[-1] if self.stack else None})
        if not path:
            cell.v = val
            return
        v = cell.v
        for p in path[:-1]:
            if isinstance(v, (VStruct, VTuple)):
                v = v.fields[p]
            elif isinstance(v, VArray):
                v = v.elems[p]
            else:
                raise Unsupported("write through %r" % type(v).__name__)
        p = path[-1]
        if isinstance(v, (VStruct, VTuple)):
            v.fields[p] = val
        elif isinstance(v, VArray):
            if not isinstance(p, int) or p < 0 or p >= len(v.elems):
                raise Unsupported("array write index %r out of range" % (p,))
            v.elems[p] = val
        else:
            raise Unsupported("write into %r" % type(v).__name__)

    def concrete_index(self, i, span, n=None):
        i = simp(i)
        if isinstance(i, int):
            return i
        lo, hi = self.ienv.bounds(i)
        if n is not None:
            lo, hi = max(lo, 0), min(hi, n - 1)
        if lo == hi:
            return int(lo)
        if hi - lo <= 16 and lo > -INF:
            c = self.choose(int(hi - lo + 1), ("index", span))
            v = int(lo + c)
            self.ienv.assume("Eq", i, v, True)
            self.pc.append(("icmp", "Eq", i, v, True, span))
            return v
        raise Unsupported("symbolic index %s" % (i.show(),))

    def place_loc(self, fr, pl, span):
        """-> (cell, path, window) ; window = (lo, hi) when the place is inside a slice view"""
        cell = fr[pl["l"]]
        path = ()
        win = None
        for e in pl["p"]:
            if e == "deref":
                v = self.read_loc(cell, path)
                if isinstance(v, VRef):
                    cell, path = v.cell, v.path
                    win = (v.lo, v.hi) if v.lo is not None else None
                elif isinstance(v, VOpaque):
                    c = Cell(VOpaque("?", "*" + str(v.tag)))
                    cell, path, win = c, (), None
                else:
                    raise Unsupported("deref of %r" % type(v).__name__)
            elif isinstance(e, dict) and "f" in e:
                path = path + (e["f"],)
                win = None
            elif isinstance(e, dict) and "i" in e:
                iv = fr[e["i"]].v
                cont = self.read_loc(cell, path)
                n = len(cont.elems) if isinstance(cont, VArray) else None
                if win is not None:
                    i = self.concrete_index(iv, span, win[1] - win[0])
                    path = path + (win[0] + i,)
                else:
                    i = self.concrete_index(iv, span, n)
                    path = path + (i,)
                win = None
            elif isinstance(e, dict) and "ci" in e:
                off = e["ci"]
                if win is not None:
                    idx = (win[1] - 1 - off + 1 - 1) if e["from_end"] else win[0] + off
                    if e["from_end"]:
                        idx = win[1] - off
                else:
                    cont = self.read_loc(cell, path)
                    idx = (len(cont.elems) - off) if e["from_end"] else off
                path = path + (idx,)
                win = None
            elif isinstance(e, dict) and "dc" in e:
                pass
            elif isinstance(e, dict) and "sub_from" in e:
                cont = self.read_loc(cell, path)
                base_lo, base_hi = win if win is not None else (0, len(cont.elems))
                lo = base_lo + e["sub_from"]
                hi = (base_hi - e["sub_to"]) if e["from_end"] else base_lo + e["sub_to"]
                win = (lo, hi)
            else:
                raise Unsupported("projection %r" % (e,))
        return cell, path, win

    def read_place(self, fr, pl, span):
        cell, path, win = self.place_loc(fr, pl, span)
        v = self.read_loc(cell, path)
        return v

    # ------------------------------------------------------------------ operands / rvalues
    def const_operand(self, c):
        if "fnref" in c:
            return VFn(c["fnref"])
        if "tyconst" in c:
            return self.const_val(c["tyconst"])
        if "int" in c:
            return int(c["int"])
        if "uint" in c:
            return int(c["uint"])
        if "bool" in c:
            return bool(c["bool"])
        if "fbits" in c:
            b = int(c["fbits"], 16)
            if c.get("fsize") == 4:
                import struct
                return F.lit(struct.unpack("<f", struct.pack("<I", b))[0])
            return ("lit", b)
        if "char" in c:
            return int(c["char"])
        if "str" in c:
            return VOpaque("&str", c["str"])
        if c.get("zst"):
            t = c["ty"]
            if t["k"] == "tuple" and not t["elems"]:
                return UNIT
            if t["k"] == "adt":
                a = self.db.adts.get(t["path"])
                if a is not None and a["kind"] == "struct":
                    return VStruct(t["path"], 0, [], [], a["variants"][0]["name"])
            return VOpaque(t, "zst")
        if "promoted" in c and "uneval" in c:
            p = "%s::promoted[%d]" % (c["uneval"], c["promoted"])
            f = self.db.fns.get(p)
            if f is not None:
                return self.call_local(f, [], None)
        if "uneval" in c and "promoted" not in c:
            # a named constant whose initialiser body was extracted (aggregate-typed `const EMPTY: Self = ..`)
            f = self.db.fns.get(c["uneval"])
            if f is not None and f.get("arg_count", 0) == 0:
                return self.call_local(f, [], None)
        if "uneval" in c and c["ty"]["k"] == "prim":
            # unevaluated const of a generic parent, e.g. `LEN` as a named const inside a macro
            raise Unsupported("unevaluated const %s" % c.get("dbg"))
        return VOpaque(c.get("ty", "?"), "const:" + str(c.get("dbg", "?"))[:60])

    def operand(self, fr, o, span):
        if "cp" in o:
            return deep(self.read_place(fr, o["cp"], span))
        if "mv" in o:
            return self.read_place(fr, o["mv"], span)
        if "c" in o:
            return self.const_operand(o["c"])
        raise Unsupported("operand %r" % (o,))

    def int_binop(self, op, a, b, ty, span):
        a, b = simp(a), simp(b)
        base = op.replace("WithOverflow", "").replace("Unchecked", "")
        ca = isinstance(a, int)
        cb = isinstance(b, int)
        if base == "Add":
            r = Lin.lift(a) + Lin.lift(b) if not (ca and cb) else a + b
        elif base == "Sub":
            r = Lin.lift(a) - Lin.lift(b) if not (ca and cb) else a - b
        elif base == "Mul":
            if ca and cb:
                r = a * b
            elif ca:
                r = b.scale(a)
            elif cb:
                r = a.scale(b)
            else:
                alo, ahi = self.ienv.bounds(a)
                blo, bhi = self.ienv.bounds(b)
                cands = [x * y for x in (alo, ahi) for y in (blo, bhi) if abs(x) != INF and abs(y) != INF]
                if len(cands) == 4:
                    r = self.ienv.new_sym("mul", min(cands), max(cands))
                else:
                    r = self.ienv.new_sym("mul")
        elif base in ("Div", "Rem"):
            if ca and cb:
                if b == 0:
                    raise PathEnd("panic", {"kind": "div-by-zero", "span": span})
                if base == "Div":
                    q = abs(a) // abs(b)
                    r = q if (a >= 0) == (b >= 0) else -q
                else:
                    r = abs(a) % abs(b)
                    r = r if a >= 0 else -r
            elif cb and b > 0 and base == "Div":
                lo, hi = self.ienv.bounds(a)
                import math
                r = self.ienv.new_sym("div", math.floor(lo / b) if lo > -INF else -INF, math.floor(hi / b) if hi < INF else INF)
            else:
                r = self.ienv.new_sym(base.lower())
        elif base in ("BitAnd", "BitOr", "BitXor", "Shl", "Shr"):
            if ca and cb:
                if base in ("Shl", "Shr"):
                    lo_, hi_ = INT_RANGE.get(ty, (-2**63, 2**63 - 1))
                    width = (hi_ - lo_ + 1).bit_length() - 1
                    b = b % width                      # the shift amount is taken modulo the bit width
                    if base == "Shl":
                        r = a << b
                        r = (r - lo_) % (hi_ - lo_ + 1) + lo_   # wrap into the operand type
                    else:
                        r = a >> b                     # arithmetic for signed, logical for unsigned (a >= 0)
                else:
                    r = {"BitAnd": a & b, "BitOr": a | b, "BitXor": a ^ b}[base]
            else:
                r = self.ienv.new_sym(base.lower())
        else:
            raise Unsupported("int op " + op)
        r = simp(r)
        if op.endswith("WithOverflow"):
            lo, hi = INT_RANGE.get(ty, (-INF, INF))
            if isinstance(r, int):
                ov = not (lo <= r <= hi)
            else:
                blo, bhi = self.ienv.bounds(r)
                if blo >= lo and bhi <= hi:
                    ov = False
                elif bhi < lo or blo > hi:
                    ov = True
                else:
                    ov = ("ovf", r, lo, hi)
            return VTuple([r, ov])
        return r

    def binop(self, op, a, b, aty, span):
        tys = aty.get("s", "?") if isinstance(aty, dict) else "?"
        cmpops = ("Eq", "Lt", "Le", "Ne", "Ge", "Gt")
        if is_float(a) and is_float(b):
            if op in cmpops:
                if F.is_lit(a) and F.is_lit(b):
                    x, y = F.litval(a), F.litval(b)
                    return {"Eq": x == y, "Lt": x < y, "Le": x <= y, "Ne": x != y, "Ge": x >= y, "Gt": x > y}[op]
                return ("fcmp", op, a, b)
            m = {"Add": "add", "Sub": "sub", "Mul": "mul", "Div": "div"}.get(op)
            if m is None:
                raise Unsupported("float op " + op)
            r = F.mk(m, a, b, self.fctx)
            if m == "div":
                self.div_log.append((a, b, span))
            return r
        if is_int(a) and is_int(b):
            if op in cmpops:
                a, b = simp(a), simp(b)
                if isinstance(a, int) and isinstance(b, int):
                    return {"Eq": a == b, "Lt": a < b, "Le": a <= b, "Ne": a != b, "Ge": a >= b, "Gt": a > b}[op]
                return ("icmp", op, a, b)
            return self.int_binop(op, a, b, tys, span)
        if is_cond(a) and is_cond(b):
            if op == "BitAnd":
                if a is False or b is False:
                    return False
                if a is True:
                    return b
                if b is True:
                    return a
                return ("and", a, b)
            if op == "BitOr":
                if a is True or b is True:
                    return True
                if a is False:
                    return b
                if b is False:
                    return a
                return ("or", a, b)
            if op in ("Eq", "Ne", "BitXor"):
                if isinstance(a, bool) and isinstance(b, bool):
                    return (a == b) if op == "Eq" else (a != b)
                e = ("beq", a, b)
                return e if op == "Eq" else ("not", e)
        if isinstance(a, VBits) and isinstance(b, VBits) and a.signed == b.signed and op in cmpops and not (a.maybe_nan or b.maybe_nan):
            return bits_compare(op, a, b)
        if isinstance(a, VBits) and op in ("Shl", "ShlUnchecked") and simp(b) == 1 and not isinstance(simp(b), bool):
            # `bits << 1` drops the sign bit: what is left is the pattern of |x| (shifted), zero exactly when x is +-0.0
            return VBits(F.fn("abs", a.src), False, self.new_name("bits<<1"), True)
        if op in ("Eq", "Ne") and ((isinstance(a, VBits) and isinstance(simp(b), int)) or (isinstance(b, VBits) and isinstance(simp(a), int))):
            # `x.to_bits() == K`: x is the float with that bit pattern (a test for +0.0 when K = 0; the sign of a
            # zero is not tracked, so -0.0 is not told apart)
            vb, kk = (a, simp(b)) if isinstance(a, VBits) else (b, simp(a))
            kk &= (1 << 64) - 1
            if str(vb.tag).startswith("bits<<1") and kk != 0:
                return ("bopq", self.new_name("cmp"))        # only the zero test of a shifted pattern is decided
            if (kk & 0x7ff0000000000000) == 0x7ff0000000000000 and (kk & 0x000fffffffffffff):
                return ("bopq", self.new_name("cmp"))        # comparison with a NaN pattern
            src = vb.src
            if kk == 0 and src[0] == "fn" and src[1] == "abs" and len(src) == 3:
                src = src[2]                                 # |x| == 0 is x == 0
            e = ("fcmp", "Eq", src, ("lit", kk))
            return e if op == "Eq" else ("not", e)
        if isinstance(a, VOpaque) or isinstance(b, VOpaque):
            if op in cmpops:
                return ("bopq", self.new_name("cmp"))
            if tys == "f64":
                return ("opq", self.new_name("f"))
            return VOpaque(tys, self.new_name("bin"))
        raise Unsupported("binop %s on %r, %r" % (op, type(a).__name__, type(b).__name__))

    def cast(self, kind, v, ty, span):
        tys = ty["s"]
        if kind == "IntToInt":
            if isinstance(v, VBits):
                if tys in ("i64", "u64"):
                    return VBits(v.src, tys == "i64", v.tag, v.maybe_nan)      # same 64 bits, other interpretation
                return VOpaque(tys, self.new_name("bits-narrowed"))
            v = simp(v)
            if isinstance(v, int) and tys in INT_RANGE:
                lo, hi = INT_RANGE[tys]
                if not (lo <= v <= hi):
                    v = (v - lo) % (hi - lo + 1) + lo
            elif isinstance(v, Lin) and tys in INT_RANGE:
                # `as` to a narrower (or differently signed) integer type truncates: in range the value
                # is kept, out of range it becomes some other value of the target type
                lo, hi = INT_RANGE[tys]
                if self.truth(("ovf", v, lo, hi), span, "as-cast"):
                    self.notes.append(("as-cast-truncation", span, tys, simp(v), self.stack[-1] if self.stack else None))
                    return self.ienv.new_sym("wrapped_as_" + tys, max(lo, -SYM_HI), min(hi, SYM_HI))
            return v
        if kind == "IntToFloat":
            if is_int(v):
                if tys == "f32" and not isinstance(simp(v), int):
                    return F.fn("lossy_f32", F.i2f(v))   # 24 bits: a count above 2^24 is rounded
                return F.i2f(v)
            if isinstance(v, bool):
                return F.lit(1.0 if v else 0.0)
            return ("opq", self.new_name("i2f"))
        if kind == "FloatToInt":
            if is_float(v) and F.is_lit(v):
                x = F.litval(v)
                if x == x and abs(x) < 2**63:
                    return int(x)
            lo, hi = INT_RANGE.get(tys, (-INF, INF))
            return self.ienv.new_sym("f2i", lo, hi)
        if kind == "FloatToFloat":
            if tys == "f32" and is_float(v) and not F.is_lit(v):
                # narrowing loses precision: keep it visible in the residual
                return F.fn("lossy_f32", v)
            return v
        if kind.startswith("PointerCoercion:Unsize"):
            if isinstance(v, VRef):
                tgt = self.read_loc(v.cell, v.path)
                if isinstance(tgt, VArray):
                    return VRef(v.cell, v.path, v.mut, 0, len(tgt.elems))
                return v
            return v
        if kind.startswith("PointerCoercion"):
            return v
        if kind in ("PtrToPtr", "Transmute", "Subtype"):
            return v
        return VOpaque(ty, self.new_name("cast"))

    def rvalue(self, fr, rv, span):
        k = rv["k"]
        if k == "use":
            return self.operand(fr, rv["op"], span)
        if k == "bin":
            a = self.operand(fr, rv["a"], span)
            b = self.operand(fr, rv["b"], span)
            return self.binop(rv["op"], a, b, rv["aty"], span)
        if k == "ref":
            cell, path, win = self.place_loc(fr, rv["place"], span)
            if win is not None:
                return VRef(cell, path, rv["mut"], win[0], win[1])
            return VRef(cell, path, rv["mut"])
        if k == "aggr":
            ops = [self.operand(fr, o, span) for o in rv["ops"]]
            ag = rv["agg"]
            if ag == "tuple":
                return VTuple(ops)
            if ag == "array":
                return VArray(ops)
            if ag == "adt":
                return VStruct(rv["path"], rv["variant"], ops, rv["field_names"], rv["variant_name"])
            if ag == "closure":
                return VStruct(rv["path"], 0, ops, None, "closure")
            return VOpaque("?", self.new_name("aggr"))
        if k == "cast":
            return self.cast(rv["kind"], self.operand(fr, rv["op"], span), rv["ty"], span)
        if k == "un":
            a = self.operand(fr, rv["a"], span)
            op = rv["op"]
            if op == "Neg":
                if is_float(a):
                    return F.mk("neg", a)
                if is_int(a):
                    a = simp(a)
                    return -a if isinstance(a, int) else simp(-a)
            if op == "Not":
                if isinstance(a, bool):
                    return not a
                if is_cond(a):
                    return ("not", a)
                if isinstance(a, int):
                    return ~a
            if op == "PtrMetadata":
                if isinstance(a, VRef) and a.lo is not None:
                    return a.hi - a.lo
                if isinstance(a, VRef):
                    tgt = self.read_loc(a.cell, a.path)
                    if isinstance(tgt, VArray):
                        return len(tgt.elems)
            if isinstance(a, VOpaque):
                return VOpaque("?", self.new_name("un"))
            raise Unsupported("unop %s on %r" % (op, type(a).__name__))
        if k == "discr":
            v = self.read_place(fr, rv["place"], span)
            if isinstance(v, VStruct):
                return v.variant
            if isinstance(v, VOpaque):
                self.mark_inconclusive("discriminant of an unmodelled value %r" % (v,), span)
                raise PathEnd("inconclusive", {"why": "discriminant of unmodelled value %r" % (v,), "span": span})
            raise Unsupported("discriminant of %r" % type(v).__name__)
        if k == "repeat":
            n = self.const_val(rv["len"])
            v = self.operand(fr, rv["op"], span)
            return VArray([deep(v) for _ in range(n)])
        if k == "rawptr":
            cell, path, win = self.place_loc(fr, rv["place"], span)
            if win is not None:
                # a raw pointer to a slice view keeps the view: `PtrMetadata` of it is the view's
                # length (the bounds check of `slice[i]` is built from it)
                return VRef(cell, path, True, win[0], win[1])
            return VRef(cell, path, True)
        return VOpaque("?", self.new_name("rv:" + k))

    # ------------------------------------------------------------------ execution
    def call_local(self, f, args, span):
        if self.depth >= self.cfg.max_depth:
            raise Unsupported("call depth")
        self.depth += 1
        self.stack.append(f["path"])
        try:
            return self.run_body(f, args)
        finally:
            self.stack.pop()
            self.depth -= 1

    def run_body(self, f, args):
        n = len(f["locals"])
        fr = [Cell() for _ in range(n)]
        if len(args) != f["arg_count"]:
            raise Unsupported("arity mismatch calling %s: %d vs %d" % (f["path"], len(args), f["arg_count"]))
        for i, a in enumerate(args):
            fr[i + 1].v = a
        blocks = f["blocks"]
        bb = 0
        while True:
            blk = blocks[bb]
            for st in blk["stmts"]:
                self.steps += 1
                if self.steps > self.cfg.max_steps:
                    raise PathEnd("inconclusive", {"why": "step budget"})
                k = st["k"]
                if k == "assign":
                    sp = st["span"]
                    v = self.rvalue(fr, st["rv"], sp)
                    if v is True and self.cfg.release and self._is_debug_cfg_span(sp):
                        # `cfg!(debug_assertions)` inside debug_assert*!: false in release builds
                        v = False
                    cell, path, win = self.place_loc(fr, st["place"], sp)
                    self.write_loc(cell, path, v, sp)
                elif k == "setdiscr":
                    raise Unsupported("SetDiscriminant")
                else:
                    pass
            t = blk["term"]
            sp = t["span"]
            k = t["k"]
            self.steps += 1
            if (self.steps & 63) == 0 and _time.time() > self.deadline:
                raise PathEnd("inconclusive", {"why": "time budget of %d s for one path exhausted (%d steps)" % (PATH_SECONDS, self.steps)})
            if k == "goto":
                bb = t["target"]
            elif k == "return":
                return fr[0].v if fr[0].v is not None else UNIT
            elif k == "switch":
                d = self.operand(fr, t["discr"], sp)
                bb = self.switch(d, t, sp)
            elif k == "call":
                bb = self.do_call(fr, t, sp)
            elif k == "assert":
                c = self.operand(fr, t["cond"], sp)
                ok = self.truth(c, sp, "assert") == t["expected"]
                if not ok:
                    info = {"kind": "assert:" + t["kind"], "span": sp, "fn": f["path"], "stack": list(self.stack)}
                    raise PathEnd("panic", info)
                bb = t["target"]
            elif k == "drop":
                bb = t["target"]
            elif k == "unreachable":
                raise PathEnd("infeasible", {"why": "unreachable"})
            else:
                raise Unsupported("terminator " + k)

    def switch(self, d, t, sp):
        is_dbg = self.cfg.release and self._is_debug_cfg(t)
        if is_dbg:
            # `if cfg!(debug_assertions)`: release builds take the false edge
            for val, tgt in t["targets"]:
                if val == "0":
                    return tgt
        if isinstance(d, bool) or is_cond(d):
            tv = self.truth(d, sp)
            want = "1" if tv else "0"
            for val, tgt in t["targets"]:
                if val == want:
                    return tgt
            return t["otherwise"]
        d = simp(d)
        if isinstance(d, int):
            for val, tgt in t["targets"]:
                if int(val) == d:
                    return tgt
            return t["otherwise"]
        if isinstance(d, Lin):
            for val, tgt in t["targets"]:
                if self.truth(("icmp", "Eq", d, int(val)), sp):
                    return tgt
            return t["otherwise"]
        if isinstance(d, VOpaque):
            c = self.choose(len(t["targets"]) + 1, ("opaque-switch", sp))
            self.mark_inconclusive("switch on an unmodelled value", sp)
            if c < len(t["targets"]):
                return t["targets"][c][1]
            return t["otherwise"]
        raise Unsupported("switch on %r" % type(d).__name__)

    def _is_debug_cfg_span(self, sp):
        mx = sp.get("mx") or []
        return (len(mx) >= 2 and mx[0].split("::")[-1].endswith("cfg")
                and any(x.split(":", 1)[1].split("::")[-1].startswith("debug_assert") for x in mx[1:]))

    def _is_debug_cfg(self, t):
        mx = t["span"].get("mx") or []
        return any(m.startswith("macro:debug_assert") for m in mx) and "c" in t["discr"]

    # ------------------------------------------------------------------ calls
    def do_call(self, fr, t, sp):
        func = t["func"]
        args = [self.operand(fr, a, sp) for a in t["args"]]
        if "c" in func and "fnref" in func["c"]:
            ref = func["c"]["fnref"]
        else:
            fv = self.operand(fr, func, sp)
            if isinstance(fv, VFn):
                ref = fv.ref
            else:
                ref = None
        ret = self.invoke(ref, args, t, sp)
        if t["target"] is None:
            raise PathEnd("panic", {"kind": "diverging-call", "callee": ref["fn"] if ref else "?", "span": sp,
                                    "fn": self.stack[-1] if self.stack else None, "stack": list(self.stack)})
        cell, path, win = self.place_loc(fr, t["dest"], sp)
        self.write_loc(cell, path, ret, sp)
        return t["target"]

    def invoke(self, ref, args, t, sp):
        if ref is None:
            return self.unknown_call("<indirect>", args, t, sp)
        name = ref["fn"]
        target = ref.get("resolved", name)
        # diverging library calls (panics)
        if t["target"] is None or name.startswith("core::panicking::") or name.startswith("std::rt::begin_panic"):
            if name in self.db.fns and t["target"] is not None:
                pass
            else:
                raise PathEnd("panic", {"kind": "explicit", "callee": name, "span": sp,
                                        "fn": self.stack[-1] if self.stack else None, "stack": list(self.stack)})
        if ref.get("trait") in ("core::ops::function::Fn", "core::ops::function::FnMut", "core::ops::function::FnOnce") \
                and len(args) == 2 and isinstance(args[1], VTuple):
            # a closure (or fn item) called directly: the argument tuple is spread over the body's parameters
            return self.call_closure(args[0], list(args[1].fields), sp)
        f = self.db.fns.get(target)
        if f is None and ref.get("trait") and "resolved" not in ref and args:
            # trait method on a generic receiver: dispatch on the runtime value
            p = self.dispatch(ref, args)
            if p is not None:
                f = self.db.fns.get(p)
                target = p
        if f is not None:
            self.calls.append({"callee": target, "args": args, "depth": self.depth, "span": sp,
                               "caller": self.stack[-1] if self.stack else None, "pc": len(self.pc), "seq": self.steps})
            r = self.call_local(f, args, sp)
            self.calls.append({"ret_of": target, "value": r, "depth": self.depth, "seq": self.steps})
            return r
        import summaries
        h = summaries.lookup(ref)
        if h is not None:
            self.fncall_log.append((name, sp))
            return h(self, ref, args, t, sp)
        return self.unknown_call(name, args, t, sp, ref)

    def dispatch(self, ref, args):
        recv = args[0]
        tgt = recv
        if isinstance(recv, VRef):
            try:
                tgt = self.read_loc(recv.cell, recv.path)
            except Unsupported:
                return None
        if isinstance(tgt, VStruct):
            p = self.db.find_impl_method(ref["trait"], tgt.path, ref["name"])
            if p is None and isinstance(recv, VRef):
                p = self.db.find_impl_method(ref["trait"], "&" + tgt.path, ref["name"])
            if p is None:
                # provided (default) trait method
                cand = ref["trait"] + "::" + ref["name"]
                if cand in self.db.fns:
                    return cand
            return p
        return None

    def unknown_call(self, name, args, t, sp, ref=None):
        self.unmodelled.append((name, sp))
        # havoc everything reachable through &mut arguments
        for a in args:
            if isinstance(a, VRef) and a.mut:
                try:
                    self.write_loc(a.cell, a.path, VOpaque("?", self.new_name("havoc:" + name.split("::")[-1])), sp)
                except Unsupported:
                    pass
        dty = None
        return self.opaque_of_dest(t, name)

    def opaque_of_dest(self, t, name):
        return VOpaque("?", self.new_name("ret:" + name.split("::")[-1]))

    def call_closure(self, clo, args, sp):
        """invoke closure value `clo` (VStruct with the closure's def path) with positional args"""
        if isinstance(clo, VRef):
            cref = clo
            clo_v = self.read_loc(clo.cell, clo.path)
        else:
            clo_v = clo
            cref = None
        if isinstance(clo_v, VFn):
            return self.invoke(clo_v.ref, args, {"target": 0, "dest": None}, sp)
        if not isinstance(clo_v, VStruct):
            raise Unsupported("call of non-closure %r" % (clo_v,))
        f = self.db.fns.get(clo_v.path)
        if f is None:
            raise Unsupported("closure body %s not in facts" % clo_v.path)
        envty = f["locals"][1]["ty"]
        if envty["k"] == "ref":
            if cref is None:
                cref = VRef(Cell(clo_v), (), envty["mut"])
            env = cref
        else:
            env = clo_v
        self.calls.append({"callee": clo_v.path, "args": args, "depth": self.depth, "span": sp,
                           "caller": self.stack[-1] if self.stack else None, "pc": len(self.pc), "seq": self.steps})
        return self.call_local(f, [env] + list(args), sp)


# ---------------------------------------------------------------------------------------------


class PathResult:
    __slots__ = ("status", "ret", "info", "pc", "writes", "calls", "unmodelled", "trace", "machine",
                 "inconclusive", "roots", "cmp_log", "div_log", "extra")

    def __init__(self, **kw):
        for k in self.__slots__:
            setattr(self, k, kw.get(k))


def explore(db, setup, cfg=None, max_paths=20000):
    """Run `setup(machine) -> callable` for every decision script.

    `setup` builds the entry state on the given machine and returns (thunk, roots) where thunk()
    executes the entry function and returns its value, and roots maps root names to Cells.
    Returns (list of PathResult, stats).
    """
    results = []
    script = []
    n_infeasible = 0
    n = 0
    t_start = _time.time()
    global _RUN_T0
    if _RUN_T0 is None:
        _RUN_T0 = t_start
    if t_start - _RUN_T0 > RUN_SECONDS:
        m0 = Machine(db, script, cfg)
        return [PathResult(status="inconclusive", info={"why": "time budget of %d s for one check run exhausted" % RUN_SECONDS},
                           pc=[], writes=[], calls=[], unmodelled=[], trace=[], machine=m0, roots={})], {"runs": 0, "infeasible": 0}
    while True:
        m = Machine(db, script, cfg)
        status, ret, info, roots, extra = None, None, {}, {}, None
        try:
            thunk, roots = setup(m)
            ret = thunk()
            if m.zero_atoms:
                # a float returned on a path where it is known to be 0 is 0 (also as a direct member of a result tuple)
                def _z(v_):
                    if isinstance(v_, tuple) and v_ and isinstance(v_[0], str) and is_float(v_) and not F.is_lit(v_):
                        return F.subst(v_, m.zero_atoms)
                    return v_
                if isinstance(ret, tuple) and ret and not isinstance(ret[0], str):
                    ret = tuple(_z(v_) for v_ in ret)
                elif isinstance(ret, list):
                    ret = [_z(v_) for v_ in ret]
                else:
                    ret = _z(ret)
            status = "return"
        except PathEnd as e:
            status, info = e.status, e.info
        except Infeasible:
            status = "infeasible"
        except Unsupported as e:
            status, info = "inconclusive", {"why": "unsupported: %s" % e, "stack": list(m.stack)}
        except RecursionError:
            status, info = "inconclusive", {"why": "recursion"}
        except (TypeError, AttributeError, KeyError, IndexError, ValueError, AssertionError) as e:
            # a value shape the evaluator has no case for: this path is undecided, the others go on
            # (instance floors then decide whether enough of the property was still analysed)
            import traceback
            tb = traceback.extract_tb(e.__traceback__)[-1]
            status, info = "inconclusive", {"why": "unsupported: evaluator has no case for this construct (%s: %s at %s:%d)" % (
                type(e).__name__, e, tb.filename.split("/")[-1], tb.lineno), "stack": list(m.stack)}
        if status == "infeasible":
            n_infeasible += 1
        else:
            if m.inconclusive is not None and status != "inconclusive":
                info = dict(info)
                info["soft_inconclusive"] = m.inconclusive
            results.append(PathResult(status=status, ret=ret, info=info, pc=m.pc, writes=m.writes,
                                      calls=m.calls, unmodelled=m.unmodelled, trace=m.trace, machine=m,
                                      inconclusive=m.inconclusive, roots=roots, cmp_log=m.cmp_log,
                                      div_log=m.div_log))
        n += 1
        # next script: DFS over the decision tree
        tr = m.trace
        i = len(tr) - 1
        while i >= 0 and tr[i][0] + 1 >= tr[i][1]:
            i -= 1
        if i < 0:
            break
        script = [c for c, _, _ in tr[:i]] + [tr[i][0] + 1]
        if n >= max_paths:
            results.append(PathResult(status="inconclusive", info={"why": "path budget %d exhausted" % max_paths},
                                      pc=[], writes=[], calls=[], unmodelled=[], trace=[], machine=m, roots={}))
            break
        if _time.time() - t_start > EXPLORE_SECONDS:
            results.append(PathResult(status="inconclusive", info={"why": "time budget of %d s for one exploration exhausted after %d paths" % (EXPLORE_SECONDS, n)},
                                      pc=[], writes=[], calls=[], unmodelled=[], trace=[], machine=m, roots={}))
            break
    return results, {"runs": n, "infeasible": n_infeasible}


# ---------------------------------------------------------------------------------------------
# interval view of float residuals (D1 for float->int conversions): bounds come from the order
# store's facts against literals and from integer bounds; evaluated over the reals with Fractions.

from fractions import Fraction as _Fr
import math as _math


def _atom_bounds(m, n):
    lo, hi = None, None  # (value, strict)
    o = m.order
    if n not in o.idx:
        return (-_math.inf, _math.inf)
    blo, bhi = -_math.inf, _math.inf
    for j in o.lits:
        ln = o.nodes[j]
        v = F.litval(ln)
        if v != v or abs(v) == _math.inf:
            continue
        r = o.get(n, ln)
        if "u" in r:
            continue
        if "<" not in r:      # n >= v
            blo = max(blo, _Fr(v))
        if ">" not in r:      # n <= v
            bhi = min(bhi, _Fr(v))
    return (blo, bhi)


def float_bounds(m, n, memo=None):
    """closed interval [lo, hi] (Fractions or +-inf) containing the real value of residual n"""
    if memo is None:
        memo = {}
    if n in memo:
        return memo[n]
    k = n[0]
    inf = _math.inf
    if k == "lit":
        v = F.litval(n)
        r = (-inf, inf) if v != v else ((_Fr(v), _Fr(v)) if abs(v) != inf else (v, v))
    elif k == "i2f":
        lo, hi = m.ienv.bounds(Lin.from_key(n[1]))
        r = (_Fr(lo) if abs(lo) != INF else lo, _Fr(hi) if abs(hi) != INF else hi)
    elif k == "atom":
        r = _atom_bounds(m, n)
    elif k == "neg":
        a = float_bounds(m, n[1], memo)
        r = (-a[1], -a[0])
    elif k in ("add", "sub"):
        a, b = float_bounds(m, n[1], memo), float_bounds(m, n[2], memo)
        if k == "sub":
            b = (-b[1], -b[0])
        r = (a[0] + b[0] if -inf not in (a[0], b[0]) else -inf, a[1] + b[1] if inf not in (a[1], b[1]) else inf)
    elif k == "mul":
        a, b = float_bounds(m, n[1], memo), float_bounds(m, n[2], memo)
        if any(abs(x) == inf for x in a + b):
            r = (-inf, inf)
        else:
            c = [x * y for x in a for y in b]
            r = (min(c), max(c))
    elif k == "div":
        a, b = float_bounds(m, n[1], memo), float_bounds(m, n[2], memo)
        if any(abs(x) == inf for x in a + b) or b[0] <= 0 <= b[1]:
            r = (-inf, inf)
        else:
            c = [x / y for x in a for y in b]
            r = (min(c), max(c))
    elif k == "fn":
        name = n[1]
        if name in ("ceil", "floor"):
            a = float_bounds(m, n[2], memo)
            f = _math.ceil if name == "ceil" else _math.floor
            r = (_Fr(f(a[0])) if abs(a[0]) != inf else a[0], _Fr(f(a[1])) if abs(a[1]) != inf else a[1])
        elif name in ("max", "min"):
            a, b = float_bounds(m, n[2], memo), float_bounds(m, n[3], memo)
            g = max if name == "max" else min
            r = (g(a[0], b[0]), g(a[1], b[1]))
        elif name == "abs":
            a = float_bounds(m, n[2], memo)
            if a[0] >= 0:
                r = a
            elif a[1] <= 0:
                r = (-a[1], -a[0])
            else:
                r = (0, max(-a[0], a[1]))
        elif name == "sqrt":
            r = (0, inf)
        elif name == "signum":
            r = (-1, 1)
        else:
            r = (-inf, inf)
    else:
        r = (-inf, inf)
    # refine with direct facts about this node
    if n in m.order.idx and k != "lit":
        d = _atom_bounds(m, n)
        r = (max(r[0], d[0]), min(r[1], d[1]))
    memo[n] = r
    return r


def _float_int_bounds(self, node):
    lo, hi = float_bounds(self, node)
    ilo = -INF if lo == -_math.inf else _math.floor(lo + _Fr(1, 2)) if not isinstance(lo, float) else -INF
    ihi = INF if hi == _math.inf else _math.floor(hi + _Fr(1, 2)) if not isinstance(hi, float) else INF
    return (ilo, ihi)


Machine.float_int_bounds = _float_int_bounds
