"""Exact arithmetic in multiquadratic extensions Q(sqrt p1, ..., sqrt pk) (p_i distinct primes).

An element is a dict {frozenset(primes): Fraction}: sum of  coeff * prod_{p in key} sqrt(p).
The products of distinct primes' roots form a basis over Q, so an element is zero iff all
coefficients are zero — equality is decidable without approximation.  Used by pit.py when a
square root of a non-square rational appears at a sample point.
"""
import math
from fractions import Fraction
from decimal import Decimal, getcontext

EMPTY = frozenset()


def factor_squarefree(n):
    """n > 0 integer -> (s, primes) with n = s^2 * prod(primes), primes distinct"""
    s = 1
    primes = []
    p = 2
    m = n
    limit = 2_000_000
    while p * p <= m and p < limit:
        if m % p == 0:
            e = 0
            while m % p == 0:
                m //= p
                e += 1
            s *= p ** (e // 2)
            if e % 2:
                primes.append(p)
        p += 1 if p == 2 else 2
    if m > 1:
        r = math.isqrt(m)
        if r * r == m:
            s *= r
        else:
            if p >= limit and m > limit * limit:
                raise ValueError("radicand too large to factor")
            primes.append(m)
    return s, primes


class QS:
    __slots__ = ("t",)

    def __init__(self, t=None):
        self.t = {k: v for k, v in (t or {}).items() if v != 0}

    @staticmethod
    def lift(x):
        if isinstance(x, QS):
            return x
        return QS({EMPTY: Fraction(x)})

    @staticmethod
    def sqrt_of(v):
        """sqrt of a non-negative Fraction"""
        v = Fraction(v)
        if v < 0:
            raise ValueError("sqrt of negative")
        if v == 0:
            return QS()
        n, d = v.numerator, v.denominator
        # sqrt(n/d) = sqrt(n*d)/d
        s, primes = factor_squarefree(n * d)
        return QS({frozenset(primes): Fraction(s, d)})

    def is_zero(self):
        return not self.t

    def as_fraction(self):
        if not self.t:
            return Fraction(0)
        if len(self.t) == 1 and EMPTY in self.t:
            return self.t[EMPTY]
        return None

    def __add__(self, o):
        o = QS.lift(o)
        t = dict(self.t)
        for k, v in o.t.items():
            t[k] = t.get(k, 0) + v
        return QS(t)

    __radd__ = __add__

    def __neg__(self):
        return QS({k: -v for k, v in self.t.items()})

    def __sub__(self, o):
        return self + (-QS.lift(o))

    def __rsub__(self, o):
        return QS.lift(o) - self

    def __mul__(self, o):
        o = QS.lift(o)
        t = {}
        for k1, v1 in self.t.items():
            for k2, v2 in o.t.items():
                common = k1 & k2
                k = k1 ^ k2
                c = v1 * v2
                for p in common:
                    c *= p
                t[k] = t.get(k, 0) + c
        return QS(t)

    __rmul__ = __mul__

    def inverse(self):
        if not self.t:
            raise ZeroDivisionError()
        fr = self.as_fraction()
        if fr is not None:
            return QS({EMPTY: 1 / fr})
        # pick a prime, split a = u + v*sqrt(p)
        p = None
        for k in self.t:
            if k:
                p = next(iter(k))
                break
        u, v = {}, {}
        for k, c in self.t.items():
            if p in k:
                v[k - {p}] = c
            else:
                u[k] = c
        U, V = QS(u), QS(v)
        conj = U - V * QS({frozenset([p]): Fraction(1)})
        norm = U * U - V * V * p
        return conj * norm.inverse()

    def __truediv__(self, o):
        return self * QS.lift(o).inverse()

    def __rtruediv__(self, o):
        return QS.lift(o) * self.inverse()

    def __pow__(self, e):
        if not isinstance(e, int):
            raise ValueError("non-integer power")
        if e < 0:
            return self.inverse() ** (-e)
        r = QS({EMPTY: Fraction(1)})
        b = self
        while e:
            if e & 1:
                r = r * b
            b = b * b
            e >>= 1
        return r

    def __eq__(self, o):
        if not isinstance(o, (QS, Fraction, int)):
            return NotImplemented
        return (self - QS.lift(o)).is_zero()

    def __hash__(self):
        return hash(tuple(sorted((tuple(sorted(k)), v) for k, v in self.t.items())))

    def approx(self, prec=60):
        getcontext().prec = prec
        tot = Decimal(0)
        for k, c in self.t.items():
            x = Decimal(c.numerator) / Decimal(c.denominator)
            for p in k:
                x *= Decimal(p).sqrt()
            tot += x
        return tot

    def sign(self):
        if not self.t:
            return 0
        fr = self.as_fraction()
        if fr is not None:
            return 1 if fr > 0 else -1
        for prec in (60, 200, 1000):
            a = self.approx(prec)
            if abs(a) > Decimal(10) ** (-(prec // 2)):
                return 1 if a > 0 else -1
        raise ValueError("sign undetermined")

    def __lt__(self, o):
        return (self - QS.lift(o)).sign() < 0

    def __le__(self, o):
        return (self - QS.lift(o)).sign() <= 0

    def __gt__(self, o):
        return (self - QS.lift(o)).sign() > 0

    def __ge__(self, o):
        return (self - QS.lift(o)).sign() >= 0

    def __repr__(self):
        if not self.t:
            return "0"
        parts = []
        for k, c in sorted(self.t.items(), key=lambda kv: sorted(kv[0])):
            parts.append("%s%s" % (c, "".join("*sqrt(%d)" % p for p in sorted(k))))
        return " + ".join(parts)


def simplify(x):
    if isinstance(x, QS):
        fr = x.as_fraction()
        if fr is not None:
            return fr
    return x
