"""Numeric-structure rules: R-DIM (scale/weight homogeneity), R-SIGN (sums of squares only grow by
non-negative terms), R-DIV (defined arithmetic), R-SHIFT (accumulators are centred: no
intermediate carries the common offset to a power > 1), accessor laws L5-L8."""
from fractions import Fraction
import random

import fnode as F
from lin import Lin, simp, INF
from machine import (Machine, Config, Cell, VStruct, VTuple, VArray, VRef, VOpaque, deep, explore, is_float,
                     is_int, is_cond, PathEnd, Unsupported, SYM_HI)
from scen import (Est, Run, Alg, leaves, leaf_map, show_val, call, site, is_debug_only, pc_show, pc_equalities)
import rules as R
from dim import DimSolver, Clash, POLY
from sign import SignEnv, is_nonneg, is_pos
import pit

# accessor contracts (DESIGN §4.0): name -> (dimension as {axis: exponent}, sign, shift class)
X1 = {"X": 1}
X2 = {"X": 2}
CONTRACT = {
    "mean": (X1, None, "E"), "mean_x": (X1, None, "E"), "mean_y": ({"Y": 1}, None, "E"),
    "unweighted_mean": (X1, None, "E"), "weighted_mean": (X1, None, "E"),
    "population_variance": (X2, "nonneg", "I"), "sample_variance": (X2, "nonneg", "I"),
    "population_variance_x": (X2, "nonneg", "I"), "sample_variance_x": (X2, "nonneg", "I"),
    "population_variance_y": ({"Y": 2}, "nonneg", "I"), "sample_variance_y": ({"Y": 2}, "nonneg", "I"),
    "variance_of_mean": (X2, "nonneg", "I"), "variance_of_weighted_mean": (X2, "nonneg", "I"),
    "error": (X1, "nonneg", "I"), "error_mean": (X1, "nonneg", "I"),
    "skewness": ({}, None, "I"), "kurtosis": ({}, None, "I"), "sample_skewness": ({}, None, "I"),
    "sample_excess_kurtosis": ({}, None, "I"), "pearson": ({}, None, "I"),
    "population_covariance": ({"X": 1, "Y": 1}, None, "I"), "sample_covariance": ({"X": 1, "Y": 1}, None, "I"),
    "sum_weights": ({"W": 1}, "nonneg", "I"), "sum_weights_sq": ({"W": 2}, "nonneg", "I"), "effective_len": ({}, "nonneg", "I"),
}
AXES = ("X", "Y", "W")


def field_of(name):
    """atom name -> state-field unknown shared by every instance of the estimator ('S.avg' -> 'avg')"""
    if name.startswith("*"):
        name = name[1:]
    i = name.find(".")
    return "field:" + (name[i + 1:] if i >= 0 else name)


def aff_of(sol, d):
    a = sol.zero()
    for ax, e in d.items():
        a = a.add(sol.unit(ax, e))
    return a


def param_dims(db, est, weighted, pair):
    """dimension of each add() parameter: observations X (and Y for pairs), weights W"""
    n = R.add_arity(db, est)
    if weighted:
        return [X1, {"W": 1}][:n]
    if pair:
        return [X1, {"Y": 1}][:n]
    return [X1][:n]


def est_scenarios(ctx, db, est, weighted=False, pair=False, nmin_generic=2, accessor_args=None, skip=(), only=None, count_exact=None):
    """evaluate new / add / merge / every accessor of `est` on abstract states; returns a dict of
    path lists with the residuals the domain rules need"""
    out = {"add": [], "merge": [], "acc": {}}
    pd = param_dims(db, est, weighted, pair)

    state_assume = R.weights_assumer(db, est, False) if weighted else None

    def assume_domain(m, xs):
        for v in xs:
            if is_float(v) and not F.is_lit(v):
                m.order.set_nan(v, False)
        if weighted and len(xs) > 1:
            m.order.assume("Ge", xs[1], F.ZERO, True)

    # add on a generic non-empty state and on the empty state
    for label, mk in (("generic", lambda alg: alg.sym("S", nmin=1)), ("empty", lambda alg: alg.new("S"))):
        def setup(m, mk=mk):
            alg = Alg(m, est)
            alg.state_assume = state_assume
            xs = R.add_atoms(m, est, "x")
            assume_domain(m, xs)
            s = mk(alg)
            init = leaf_map(deep(s.v))

            def thunk():
                alg.add(s, *xs)
                return init, leaf_map(s.v), xs
            return thunk, {}
        paths, stats = explore(db, setup, Config(release=True), 400)
        ctx.count_run(Run(est.add, paths, stats, "add-" + label))
        out["add"].append((label, paths))
    if est.merge:
        def setup2(m):
            alg = Alg(m, est)
            alg.state_assume = state_assume
            a = alg.sym("A", nmin=1)
            b = alg.sym("B", nmin=1)
            init = leaf_map(deep(a.v))
            initb = leaf_map(deep(b.v))

            def thunk():
                alg.merge(a, b)
                return init, leaf_map(a.v), initb
            return thunk, {}
        paths, stats = explore(db, setup2, Config(release=True), 400)
        ctx.count_run(Run(est.merge, paths, stats, "merge"))
        out["merge"].append(("generic", paths))
    for name, p in sorted(R.noarg_accessors(db, est).items()):
        if name in ("len", "is_empty", "estimate", "p") or name in skip or (only is not None and name not in only):
            continue

        def setup3(m, p=p):
            alg = Alg(m, est)
            alg.state_assume = state_assume
            if count_exact is not None:
                leaf = R.count_leaf(ctx, db, est)
                s = alg.sym("S", nmin=count_exact, bounds={"S." + leaf: count_exact})
            else:
                s = alg.sym("S", nmin=nmin_generic)

            def thunk():
                return call(m, p, [VRef(s, (), False)]), leaf_map(s.v)
            return thunk, {}
        paths, stats = explore(db, setup3, Config(release=True), 400)
        ctx.count_run(Run(p, paths, stats, "acc-" + name))
        out["acc"][name] = (p, paths)
    for name, args_list in (accessor_args or {}).items():
        p = est.m(name, None)
        if p is None:
            continue
        for args in args_list:
            def setup4(m, p=p, args=args):
                alg = Alg(m, est)
                s = alg.sym("S", nmin=nmin_generic)

                def thunk():
                    return call(m, p, [VRef(s, (), False)] + list(args)), leaf_map(s.v)
                return thunk, {}
            paths, stats = explore(db, setup4, Config(release=True), 400)
            ctx.count_run(Run(p, paths, stats, "acc-%s%r" % (name, args)))
            out["acc"]["%s(%s)" % (name, ",".join(map(str, args)))] = (p, paths)
    out["param_dims"] = pd
    out["contracts"] = {}
    return out


# ---------------------------------------------------------------------------------------------
# R-DIM


def r_dim(ctx, db, est, scen, extra_contracts=None):
    sol = DimSolver(AXES)
    sol.field_of = field_of
    contracts = dict(CONTRACT)
    contracts.update(extra_contracts or {})
    pd = scen["param_dims"]
    n_ob = 0

    def give_params(xs):
        for v, d in zip(xs, pd):
            if is_float(v) and v[0] == "atom":
                sol.give(v[1], aff_of(sol, d))

    def attempt(key, fn, what, thunk):
        nonlocal n_ob
        n_ob += 1
        try:
            thunk()
            ctx.ob("R-DIM", key, fn, R.fn_site(db, fn), True, "%s: dimensionally consistent" % what)
            return True
        except Clash as c:
            ctx.ob("R-DIM", key, fn, R.fn_site(db, fn), False,
                   "%s: %s have different physical dimensions: %s vs %s%s" % (
                       what, c.what or "operands", c.lhs, c.rhs, (" in " + F.show(c.node)[:160]) if c.node else ""),
                   sample={"lhs": c.lhs, "rhs": c.rhs, "expr": F.show(c.node)[:200] if c.node else None})
            return False

    # 1. accessor contracts fix the dimensions of the state fields
    for name, (p, paths) in sorted(scen["acc"].items()):
        base = name.split("(")[0]
        con = contracts.get(name) or contracts.get(base)
        for pth in paths:
            if pth.status != "return" or not is_float(pth.ret[0]):
                continue
            ret = pth.ret[0]

            def th(ret=ret, con=con, pth=pth):
                for e in pth.cmp_log:
                    sol.compare(e[1], e[2], "operands of a comparison")
                if con is not None:
                    sol.require(ret, aff_of(sol, con[0]), "returned statistic and its contract")
                else:
                    sol.dim(ret)
            attempt("accessor:%s" % name, p, "%s()%s" % (name, "" if con else " (no contract; internal consistency only)"), th)
    # 2. updates keep every field's dimension
    for kind in ("add", "merge"):
        for label, paths in scen[kind]:
            fn = est.add if kind == "add" else est.merge
            for pth in paths:
                if pth.status != "return":
                    continue
                init, fin = pth.ret[0], pth.ret[1]
                if kind == "add":
                    give_params(pth.ret[2])
                for leaf, v in sorted(fin.items()):
                    if not is_float(v) or v == init.get(leaf):
                        continue

                    def th(leaf=leaf, v=v):
                        sol.require(v, sol.unknown("field:" + leaf), "new value of `%s` and the field itself" % leaf)
                    attempt("%s:%s" % (kind, leaf), fn, "%s (%s state) writes `%s`" % (kind, label, leaf), th)

                def th2(pth=pth):
                    for e in pth.cmp_log:
                        sol.compare(e[1], e[2], "operands of a comparison")
                attempt("%s:comparisons" % kind, fn, "%s (%s state) comparisons" % (kind, label), th2)
    scen["dim_solver"] = sol
    return n_ob


def all_nodes(n, acc):
    stack = [n]
    while stack:
        x = stack.pop()
        if not isinstance(x, tuple) or x in acc:
            continue
        acc.add(x)
        if x[0] in ("add", "sub", "mul", "div", "neg"):
            stack.extend(x[1:])
        elif x[0] == "fn":
            stack.extend(a for a in x[2:] if isinstance(a, tuple))
    return acc


def r_mag(ctx, db, est, scen, nmax, axis="X"):
    """no intermediate of an accessor or update has a physical dimension beyond X^nmax: the
    property's domain only guarantees that max|x|^nmax (times n) is representable, so a power
    beyond it overflows/underflows for legal inputs although the final statistic is representable"""
    sol = scen.get("dim_solver")
    if sol is None:
        return 0
    ax = sol.axes.index(axis)
    n_ob = 0

    def check(where, fn, node):
        nonlocal n_ob
        worst = None
        for x in all_nodes(node, set()):
            if x[0] in ("lit", "i2f"):
                continue
            try:
                d = sol.dim(x)
            except Clash:
                continue
            if d is POLY:
                continue
            c, t = sol._resolve(d, ax)
            if t:
                continue
            if abs(c) > nmax and (worst is None or abs(c) > worst[0]):
                worst = (abs(c), x)
        n_ob += 1
        ctx.ob("R-MAG", "%s:max-degree" % where, fn, R.fn_site(db, fn), worst is None,
               "%s: every intermediate has dimension within X^%d" % (where, nmax) if worst is None else
               "%s: the intermediate %s has dimension X^%s, beyond X^%d — it overflows/underflows for data whose statistic is still representable" % (
                   where, F.show(worst[1])[:140], worst[0], nmax),
               sample={"intermediate": F.show(worst[1])[:200], "degree": str(worst[0])} if worst else None)

    for name, (p, paths) in sorted(scen["acc"].items()):
        for pth in paths:
            if pth.status == "return" and is_float(pth.ret[0]):
                check(name, p, pth.ret[0])
    for kind in ("add", "merge"):
        for label, paths in scen[kind]:
            fn = est.add if kind == "add" else est.merge
            for pth in paths:
                if pth.status != "return":
                    continue
                for leaf, v in sorted(pth.ret[1].items()):
                    if is_float(v) and v != pth.ret[0].get(leaf):
                        check("%s:%s" % (kind, leaf), fn, v)
    return n_ob


# ---------------------------------------------------------------------------------------------
# R-SIGN / R-DIV


def nonneg_fields(scen):
    """state leaves that a >= 0 accessor returns up to a positive factor (sums of squares, weight sums)"""
    out = set()
    cons = dict(CONTRACT)
    cons.update(scen.get("contracts") or {})
    for name, (p, paths) in scen["acc"].items():
        con = cons.get(name) or cons.get(name.split("(")[0])
        if not con or con[1] != "nonneg":
            continue
        for pth in paths:
            if pth.status != "return" or not is_float(pth.ret[0]):
                continue
            v = pth.ret[0]
            while v[0] in ("div", "mul") and v[2][0] in ("i2f", "lit"):
                v = v[1]
            if v[0] == "atom":
                out.add(field_of(v[1]))
    return out


def r_sign(ctx, db, est, scen, weighted=False, extra_nonneg=()):
    nn = nonneg_fields(scen) | set(extra_nonneg)
    n_ob = 0
    if not nn:
        return 0

    def env_for(m, atoms_extra=None):
        asg = {}
        return SignEnv(m, AtomSigns(nn, atoms_extra or {}))

    for kind in ("add", "merge"):
        for label, paths in scen[kind]:
            fn = est.add if kind == "add" else est.merge
            for pth in paths:
                if pth.status != "return":
                    continue
                init, fin = pth.ret[0], pth.ret[1]
                extra = {}
                if kind == "add" and weighted and len(pth.ret[2]) > 1 and pth.ret[2][1][0] == "atom":
                    extra[pth.ret[2][1][1]] = "nonneg"
                se = SignEnv(pth.machine, AtomSigns(nn, extra))
                for leaf, v in sorted(fin.items()):
                    if ("field:" + leaf) not in nn or not is_float(v):
                        continue
                    n_ob += 1
                    s = se.of(v)
                    ok = is_nonneg(s)
                    inc_ = None
                    if not ok and v[0] == "add":
                        inc_ = v[2] if v[1] == init.get(leaf) else None
                    ctx.ob("R-SIGN", "%s:%s" % (kind, leaf), fn, R.fn_site(db, fn), ok,
                           "%s (%s state): `%s` becomes %s, sign %s%s" % (
                               kind, label, leaf, F.show(v)[:200], s,
                               "" if ok else " — the accumulator can decrease / go negative, so a variance computed from it is not provably >= 0"),
                           sample={"leaf": leaf, "value": F.show(v)[:240], "sign": s})
    # accessors with a >= 0 contract
    cons = dict(CONTRACT)
    cons.update(scen.get("contracts") or {})
    for name, (p, paths) in sorted(scen["acc"].items()):
        con = cons.get(name) or cons.get(name.split("(")[0])
        if not con or con[1] != "nonneg":
            continue
        for pth in paths:
            if pth.status != "return" or not is_float(pth.ret[0]):
                continue
            se = SignEnv(pth.machine, AtomSigns(nn, {}))
            s = se.of(pth.ret[0])
            v = pth.ret[0]
            ok = is_nonneg(s) or (F.is_lit(v) and F.is_nan_lit(v))
            n_ob += 1
            ctx.ob("R-SIGN", "accessor:%s" % name, p, R.fn_site(db, p), ok,
                   "%s() = %s has sign %s (contract: >= 0 whenever defined)" % (name, F.show(v)[:160], s))
    return n_ob


class AtomSigns(dict):
    """atom name -> sign: atoms of non-negative fields are 'nonneg'"""

    def __init__(self, nn_fields, extra):
        super().__init__(extra)
        self.nn = nn_fields

    def get(self, name, default=None):
        if name in self:
            return self[name]
        if field_of(name) in self.nn:
            return "nonneg"
        return default


def r_div(ctx, db, est, scen, weighted=False, spread_assumption=True, tag=""):
    """every float division on an obligated path has a provably non-zero divisor; square roots and
    fractional powers have a non-negative radicand.  Divisors built only from sums of squares are
    discharged by the property's own 'non-zero spread' quantifier (recorded as an assumption)."""
    nn = nonneg_fields(scen)
    wl = R.weight_leaves(db, est) if weighted else set()
    n_ob = 0
    seen = set()

    def check_path(pth, fn, where, extra):
        nonlocal n_ob
        m = pth.machine
        se = SignEnv(m, AtomSigns(nn, extra))
        for a, b, sp in pth.div_log:
            key = (where, F.show(b)[:80])
            s = se.of(b)
            ok = s in ("pos", "neg")
            how = "sign %s" % s
            if not ok:
                ats = F.atoms(b)
                only_spread = ats and all((field_of(x) in nn and field_of(x)[6:] not in wl) or x.startswith("int:") for x in ats)
                if only_spread and spread_assumption and s in ("nonneg", "zero", "pos"):
                    ok = True
                    how = "non-zero by the property's non-zero-spread assumption"
                    ctx.assume("statistics that divide by a sum of squares are claimed only for data with non-zero spread (property quantifier)")
                # a literal NaN/0 sentinel result hides the division: not obligated
            if key in seen and ok:
                continue
            seen.add(key)
            n_ob += 1
            ctx.ob("R-DIV", "%s%s:div:%s" % (tag, where, F.show(b)[:60]), fn, R.fn_site(db, fn), ok,
                   "%s: divisor %s %s [path: %s]" % (where, F.show(b)[:120], how if ok else "may be zero (%s) — 0/0 or x/0 reaches the state or the result" % how,
                                                     pc_show(pth.pc) or "unconditional"),
                   sample={"divisor": F.show(b)[:160], "sign": s, "at": site(sp)})

    for kind in ("add", "merge"):
        for label, paths in scen[kind]:
            fn = est.add if kind == "add" else est.merge
            for pth in paths:
                if pth.status != "return":
                    continue
                extra = {}
                if kind == "add" and weighted and len(pth.ret[2]) > 1 and pth.ret[2][1][0] == "atom":
                    extra[pth.ret[2][1][1]] = "nonneg"
                check_path(pth, fn, "%s(%s)" % (kind, label), extra)
    for name, (p, paths) in sorted(scen["acc"].items()):
        for pth in paths:
            if pth.status != "return":
                continue
            extra = {}
            if wl:
                # statistics of weighted estimators are claimed for a positive total weight
                for a in pth.ret[1].values() if isinstance(pth.ret[1], dict) else []:
                    if is_float(a) and a[0] == "atom" and field_of(a[1])[6:] in wl:
                        extra[a[1]] = "pos"
                ctx.assume("weighted statistics are claimed for a positive total weight (sum of weights and of squared weights > 0)")
            check_path(pth, p, name, extra)
            # radicands
            if is_float(pth.ret[0]):
                se = SignEnv(pth.machine, AtomSigns(nn, {}))
                for node in radicands(pth.ret[0]):
                    s = se.of(node)
                    n_ob += 1
                    ctx.ob("R-DIV", "%s:radicand:%s" % (name, F.show(node)[:50]), p, R.fn_site(db, p), is_nonneg(s),
                           "%s(): radicand / base of a fractional power %s has sign %s%s" % (
                               name, F.show(node)[:140], s, "" if is_nonneg(s) else " — negative values give NaN"),
                           sample={"radicand": F.show(node)[:200], "sign": s})
    return n_ob


def radicands(n, acc=None, seen=None):
    if acc is None:
        acc, seen = [], set()
    if not isinstance(n, tuple) or n in seen:
        return acc
    seen.add(n)
    k = n[0]
    if k == "fn":
        if n[1] == "sqrt":
            acc.append(n[2])
        elif n[1] == "powf" and F.is_lit(n[3]) and Fraction(F.litval(n[3])).limit_denominator(64).denominator != 1:
            acc.append(n[2])
        for a in n[2:]:
            if isinstance(a, tuple):
                radicands(a, acc, seen)
    elif k in ("add", "sub", "mul", "div", "neg"):
        for a in n[1:]:
            radicands(a, acc, seen)
    return acc


# ---------------------------------------------------------------------------------------------
# R-SHIFT: offset degree of every intermediate


class PolyC:
    """univariate polynomial in the common offset c with Fraction coefficients (exact)"""
    __slots__ = ("c",)

    def __init__(self, c):
        while len(c) > 1 and c[-1] == 0:
            c = c[:-1]
        self.c = c

    def deg(self):
        return len(self.c) - 1 if any(self.c) else 0

    def __add__(self, o):
        n = max(len(self.c), len(o.c))
        return PolyC([(self.c[i] if i < len(self.c) else 0) + (o.c[i] if i < len(o.c) else 0) for i in range(n)])

    def __sub__(self, o):
        n = max(len(self.c), len(o.c))
        return PolyC([(self.c[i] if i < len(self.c) else 0) - (o.c[i] if i < len(o.c) else 0) for i in range(n)])

    def __mul__(self, o):
        r = [Fraction(0)] * (len(self.c) + len(o.c) - 1)
        for i, a in enumerate(self.c):
            if a == 0:
                continue
            for j, b in enumerate(o.c):
                r[i + j] += a * b
        return PolyC(r)

    def scale(self, k):
        return PolyC([a * k for a in self.c])


class NonPoly(Exception):
    pass


def shift_eval(n, atom_poly, rng, memo, int_vals, trace):
    """value of residual n as a polynomial in c at a random rational point; `trace` collects
    (degree, node) for every intermediate"""
    if n in memo:
        return memo[n]
    k = n[0]
    if k == "lit":
        v = F.litval(n)
        if v != v or abs(v) == float("inf"):
            raise NonPoly("non-finite literal")
        r = PolyC([Fraction(v)])
    elif k == "atom":
        r = atom_poly(n[1])
    elif k == "i2f":
        terms, c0 = n[1]
        v = c0
        for s, kk in terms:
            if s not in int_vals:
                int_vals[s] = rng.randint(3, 40)
            v += kk * int_vals[s]
        r = PolyC([Fraction(v)])
    elif k == "neg":
        r = shift_eval(n[1], atom_poly, rng, memo, int_vals, trace).scale(-1)
    elif k in ("add", "sub", "mul"):
        a = shift_eval(n[1], atom_poly, rng, memo, int_vals, trace)
        b = shift_eval(n[2], atom_poly, rng, memo, int_vals, trace)
        r = a + b if k == "add" else (a - b if k == "sub" else a * b)
    elif k == "div":
        a = shift_eval(n[1], atom_poly, rng, memo, int_vals, trace)
        b = shift_eval(n[2], atom_poly, rng, memo, int_vals, trace)
        if b.deg() > 0:
            raise NonPoly("division by an offset-carrying quantity: %s" % F.show(n[2])[:80])
        if b.c[0] == 0:
            raise ZeroDivisionError()
        r = a.scale(1 / b.c[0])
    elif k == "fn":
        args = [shift_eval(a, atom_poly, rng, memo, int_vals, trace) for a in n[2:] if isinstance(a, tuple) and a and a[0] in F_TAGS]
        if any(a.deg() > 0 for a in args):
            raise NonPoly("%s of an offset-carrying quantity" % n[1])
        # offset-free argument: the result is an offset-free constant (value irrelevant for degrees)
        key = ("fnval", n)
        if key not in memo:
            memo[key] = PolyC([Fraction(rng.randint(2, 50), rng.randint(1, 7))])
        r = memo[key]
    else:
        raise NonPoly("node %s" % k)
    memo[n] = r
    trace.append((r.deg(), n))
    return r


F_TAGS = ("atom", "lit", "i2f", "add", "sub", "mul", "div", "neg", "fn", "opq")


def r_shift(ctx, db, est, scen, e_fields, axis_params=(0,), label="X"):
    """shift the observations (parameters `axis_params` of add) and the mean-like fields
    `e_fields` by a common offset c: every intermediate of add/merge must have offset degree <= 1
    (no squares of offset-carrying quantities: the textbook sum-of-squares cancellation), mean-like
    fields must stay equivariant (c-coefficient exactly 1) and every other field offset-free."""
    n_ob = 0
    rng = random.Random(12345)
    e_fields = set(e_fields)

    def run(kind, fn, lab, pth, leaf, v, shifted_atoms):
        nonlocal n_ob
        vals = {}

        def atom_poly(name):
            if name not in vals:
                vals[name] = Fraction(rng.randint(2, 60), rng.randint(1, 9))
            if name in shifted_atoms or field_of(name) in e_fields:
                return PolyC([vals[name], Fraction(1)])
            return PolyC([vals[name]])
        worst = None
        res = None
        for attempt in range(3):
            memo, ints, trace = {}, {}, []
            try:
                res = shift_eval(v, atom_poly, rng, memo, ints, trace)
            except ZeroDivisionError:
                vals.clear()
                continue
            except NonPoly as e:
                n_ob += 1
                ctx.ob("R-SHIFT", "%s:%s:%s" % (kind, leaf, label), fn, R.fn_site(db, fn), False,
                       "%s (%s): `%s` is not a polynomial in the common offset: %s" % (kind, lab, leaf, e))
                return
            d = max((t[0] for t in trace), default=0)
            cand = [t for t in trace if t[0] == d]
            if worst is None or d > worst[0]:
                worst = (d, min(cand, key=lambda t: F.size(t[1]))[1] if cand else None)
            break
        if res is None:
            return
        want_e = ("field:" + leaf) in e_fields
        final_ok = (res.deg() == 1 and res.c[1] == 1) if want_e else res.deg() == 0
        inter_ok = worst is None or worst[0] <= 1
        n_ob += 1
        if not final_ok:
            ctx.ob("R-SHIFT", "%s:%s:%s" % (kind, leaf, label), fn, R.fn_site(db, fn), False,
                   "%s (%s): under a common shift c of the %s data `%s` changes by %s (must %s)" % (
                       kind, lab, label, leaf, "a polynomial of degree %d in c with c-coefficient %s" % (res.deg(), res.c[1] if len(res.c) > 1 else 0),
                       "shift by exactly c" if want_e else "not change at all"))
        elif not inter_ok:
            ctx.ob("R-SHIFT", "%s:%s:%s" % (kind, leaf, label), fn, R.fn_site(db, fn), False,
                   "%s (%s): `%s` is shift-invariant only by cancellation: the intermediate %s carries the offset to the power %d "
                   "(catastrophic cancellation when the offset is large compared with the spread)" % (kind, lab, leaf, F.show(worst[1])[:160], worst[0]),
                   sample={"intermediate": F.show(worst[1])[:240], "offset_degree": worst[0]})
        else:
            ctx.ob("R-SHIFT", "%s:%s:%s" % (kind, leaf, label), fn, R.fn_site(db, fn), True,
                   "%s (%s): `%s` is %s and no intermediate carries the offset to a power > 1" % (kind, lab, leaf, "equivariant" if want_e else "offset-free"))

    for kind in ("add", "merge"):
        for lab, paths in scen[kind]:
            fn = est.add if kind == "add" else est.merge
            for pth in paths:
                if pth.status != "return":
                    continue
                init, fin = pth.ret[0], pth.ret[1]
                shifted = set()
                if kind == "add":
                    for i in axis_params:
                        if i < len(pth.ret[2]) and pth.ret[2][i][0] == "atom":
                            shifted.add(pth.ret[2][i][1])
                for leaf, v in sorted(fin.items()):
                    if is_float(v) and v != init.get(leaf):
                        run(kind, fn, lab, pth, leaf, v, shifted)
    return n_ob


def mean_fields(scen, names=("mean", "mean_x", "unweighted_mean", "weighted_mean")):
    out = set()
    for name in names:
        if name in scen["acc"]:
            for pth in scen["acc"][name][1]:
                if pth.status == "return" and is_float(pth.ret[0]) and pth.ret[0][0] == "atom":
                    out.add(field_of(pth.ret[0][1]))
    return out


# ---------------------------------------------------------------------------------------------
# R-ZEROW: a zero-weight observation changes only the unweighted statistics


def r_zerow(ctx, db, est, weighted_stats):
    fsite = R.fn_site(db, est.add)
    for label, mk in (("generic", lambda alg: alg.sym("S", nmin=0)), ("empty", lambda alg: alg.new("S"))):
        def setup(m, mk=mk):
            alg = Alg(m, est)
            s = mk(alg)
            R.weights_assumer(db, est, False)(m, s)
            x = F.atom("x")
            m.order.set_nan(x, False)

            y, w = F.atom("y"), F.atom("w")
            m.order.set_nan(y, False)
            m.order.set_nan(w, False)
            m.order.assume("Gt", w, F.ZERO, True)

            def obs(cell, tag):
                r = {}
                for n in weighted_stats:
                    if est.m(n, None):
                        v = call(m, est.m(n, None), [VRef(cell, (), False)])
                        r[tag + n] = m.truth(v, None) if is_cond(v) and not isinstance(v, bool) else v
                return r

            def thunk():
                ref = alg.clone(s)
                before = obs(s, "now:")
                alg.add(s, x, F.ZERO)
                after = obs(s, "now:")
                # ... and the zero-weight observation must stay invisible once weight arrives
                alg.add(s, y, w)
                alg.add(ref, y, w)
                after.update(obs(s, "then:"))
                before.update(obs(ref, "then:"))
                return before, after
            return thunk, {}
        paths, stats = explore(db, setup, Config(release=True), 400)
        ctx.count_run(Run(est.add, paths, stats, "zerow-" + label))
        for p in paths:
            pcs = pc_show(p.pc) or "unconditional"
            if p.status == "return":
                before, after = p.ret
                bad = R.exact_state_equal(p, after, before)
                ctx.ob("R-ZEROW", "zero-weight-add:%s" % label, est.add, fsite, not bad,
                       ("a zero-weight observation changes weighted statistics (%s state): %s [path: %s]" % (label, bad[:3], pcs)) if bad
                       else "a zero-weight observation leaves %s exactly unchanged (%s state) [path: %s]" % (sorted(before), label, pcs),
                       sample={"changed": [b[0] for b in bad][:4]})
            elif p.status == "panic":
                if is_debug_only(p.info.get("span") or {}):
                    continue
                ctx.ob("R-ZEROW", "zero-weight-add:%s" % label, est.add, fsite, False, "panics: %s" % p.info.get("kind"))
            else:
                ctx.ob("R-ZEROW", "zero-weight-add:%s" % label, est.add, fsite, False, str(p.info.get("why")), inc=True)


# ---------------------------------------------------------------------------------------------
# R-CONVEX: mean updates/merges are convex combinations (coefficients >= 0 summing to 1)


def r_convex(ctx, db, est, scen, e_fields, weighted=False, axis_params=(0,), label="X"):
    import d7
    import sympy as sp
    e_fields = set(e_fields)
    n_ob = 0
    for kind in ("add", "merge"):
        for lab, paths in scen[kind]:
            fn = est.add if kind == "add" else est.merge
            for pth in paths:
                if pth.status != "return":
                    continue
                init, fin = pth.ret[0], pth.ret[1]
                e_atoms = set()
                if kind == "add":
                    for i in axis_params:
                        if i < len(pth.ret[2]) and pth.ret[2][i][0] == "atom":
                            e_atoms.add(pth.ret[2][i])
                for leaf, v in sorted(fin.items()):
                    if ("field:" + leaf) not in e_fields or not is_float(v) or v == init.get(leaf):
                        continue
                    ats = {a for a in collect_atoms(v) if a in e_atoms or field_of(a[1]) in e_fields}
                    cv = d7.Conv(positive=lambda nm: True, machine=pth.machine)
                    try:
                        expr = cv.conv(v)
                        syms = {a: cv.conv(a) for a in ats}
                        ok = True
                        why = []
                        tot = 0
                        for a, sy in syms.items():
                            c = sp.together(sp.diff(expr, sy))
                            c = sp.cancel(c)
                            tot = tot + c
                            num, den = sp.fraction(c)
                            if not (all_nonneg_poly(num) and all_nonneg_poly(den)) and not (all_nonneg_poly(-num) and all_nonneg_poly(-den)):
                                ok = False
                                why.append("coefficient of %s is %s (not provably >= 0)" % (a[1], c))
                        if sp.simplify(tot - 1) != 0:
                            ok = False
                            why.append("coefficients sum to %s, not 1" % sp.simplify(tot))
                    except Exception as e:
                        ctx.ob("R-CONVEX", "%s:%s" % (kind, leaf), fn, R.fn_site(db, fn), False, "undecided: %s" % e, inc=True)
                        continue
                    n_ob += 1
                    ctx.ob("R-CONVEX", "%s:%s:%s" % (kind, leaf, label), fn, R.fn_site(db, fn), ok,
                           "%s (%s): new `%s` is a convex combination of %s" % (kind, lab, leaf, sorted(a[1] for a in ats)) if ok
                           else "%s (%s): new `%s` is not a convex combination: %s" % (kind, lab, leaf, "; ".join(why)[:300]), d7=True)
    return n_ob


# ---------------------------------------------------------------------------------------------
# R-UNDERFLOW: the range clause of C17 has no absolute slack (its tolerance C*n*2^-53*max|x| scales
# with the data, and the domain contains denormals), so the new mean may contain at most ONE operation
# whose result can be an inexactly rounded subnormal, in a position where rounding is monotone.
#
# Standard model with gradual underflow: fl(a op b) = (a op b)(1+d) + e.  e = 0 for + and - (a sum of
# floats that is subnormal is exact) and for a product with an integer-valued count (the result is not
# smaller than the operand, so it is exact whenever it is subnormal); a product with any other factor
# and a quotient can be a subnormal rounded by up to half a unit.  One such operation is harmless at the
# root (the exact value lies between representable observations, rounding is monotone) and as the
# increment added to a stored mean (fl(c*delta) stays between 0 and delta for c in [0,1], R-CONVEX).
# Two or more are not: (1/2)*3u + (1/2)*3u = 2u + 2u = 4u for constant data 3u (u = 2^-1074).


def _int_valued(n):
    if not isinstance(n, tuple):
        return False
    if n[0] == "i2f":
        return True
    if n[0] == "lit":
        try:
            v = F.litval(n)
            return float(v) == int(v) and abs(v) >= 1
        except Exception:
            return False
    if n[0] in ("add",) and _int_valued(n[1]) and _int_valued(n[2]):
        return True
    if n[0] == "mul" and _int_valued(n[1]) and _int_valued(n[2]):
        return True
    return False


def underflow_sources(v, is_data):
    """nodes of `v` (a DAG: each node once) whose rounded result can be an inexact subnormal of data dimension"""
    has = {}

    def data(n):
        if not isinstance(n, tuple):
            return False
        k = id(n)
        if k not in has:
            if n[0] == "atom":
                has[k] = is_data(n)
            elif n[0] in ("lit", "i2f", "opq"):
                has[k] = False
            elif n[0] == "fn":
                has[k] = any(data(a) for a in n[2:])
            else:
                has[k] = any(data(a) for a in n[1:])
        return has[k]
    out, seen = [], set()

    def walk(n):
        if not isinstance(n, tuple) or id(n) in seen or not data(n):
            return
        seen.add(id(n))
        k = n[0]
        if k == "mul":
            a, b = n[1], n[2]
            if not ((_int_valued(a) and not data(a)) or (_int_valued(b) and not data(b))):
                out.append(n)
            walk(a), walk(b)
        elif k == "div":
            out.append(n)
            walk(n[1]), walk(n[2])
        elif k == "fn":
            if n[1] not in ("sorted", "min", "max", "abs", "select", "lossy_f32", "copysign"):
                out.append(n)
            for a in n[2:]:
                walk(a)
        elif k in ("add", "sub", "neg"):
            for a in n[1:]:
                walk(a)
    walk(v)
    return out


def r_underflow(ctx, db, est, scen, e_fields, axis_params=(0,), label="X"):
    e_fields = set(e_fields)
    n_ob = 0
    for kind in ("add", "merge"):
        for lab, paths in scen[kind]:
            fn = est.add if kind == "add" else est.merge
            for pth in paths:
                if pth.status != "return":
                    continue
                init, fin = pth.ret[0], pth.ret[1]
                e_atoms = set()
                if kind == "add":
                    for i in axis_params:
                        if i < len(pth.ret[2]) and pth.ret[2][i][0] == "atom":
                            e_atoms.add(pth.ret[2][i])
                for leaf, v in sorted(fin.items()):
                    if ("field:" + leaf) not in e_fields or not is_float(v) or v == init.get(leaf):
                        continue
                    srcs = underflow_sources(v, lambda a: a in e_atoms or field_of(a[1]) in e_fields)

                    def strip(x):
                        while isinstance(x, tuple) and x[0] == "neg":
                            x = x[1]
                        return x
                    key = "%s:%s:%s" % (kind, leaf, label)
                    n_ob += 1
                    if len(srcs) >= 2:
                        ctx.ob("R-UNDERFLOW", key, fn, R.fn_site(db, fn), False,
                               "%s (%s): new `%s` contains %d separately rounded products/quotients of data-sized values by non-integers "
                               "(%s): each can be a subnormal rounded by half a unit, and the errors add up while the range clause has no "
                               "absolute slack — constant subnormal data (3 * 2^-1074 with equal shares) is not reproduced, the mean leaves [min, max]"
                               % (kind, lab, leaf, len(srcs), "; ".join(F.show(x)[:70] for x in srcs[:3])), sample={"sources": len(srcs)})
                    elif not srcs:
                        ctx.ob("R-UNDERFLOW", key, fn, R.fn_site(db, fn), True,
                               "%s (%s): new `%s` contains no operation that can round a subnormal" % (kind, lab, leaf))
                    else:
                        s0 = srcs[0]
                        root = strip(v)
                        ok = root is s0 or root == s0 or (root[0] in ("add", "sub") and any(strip(o) == s0 for o in root[1:]))
                        ctx.ob("R-UNDERFLOW", key, fn, R.fn_site(db, fn), ok,
                               ("%s (%s): new `%s` has a single subnormal-rounding operation, %s" % (
                                   kind, lab, leaf, "at the root" if (root is s0 or root == s0) else "as the increment added to the stored mean"))
                               if ok else "%s (%s): new `%s` rounds a subnormal once (%s) but not at the root nor as a direct increment: undecided shape"
                               % (kind, lab, leaf, F.show(s0)[:80]), inc=not ok)
    return n_ob


def collect_atoms(n, acc=None):
    if acc is None:
        acc = set()
    if not isinstance(n, tuple):
        return acc
    if n[0] == "atom":
        acc.add(n)
    elif n[0] == "fn":
        for a in n[2:]:
            if isinstance(a, tuple):
                collect_atoms(a, acc)
    elif n[0] in ("add", "sub", "mul", "div", "neg"):
        for a in n[1:]:
            collect_atoms(a, acc)
    return acc


def all_nonneg_poly(e):
    """polynomial in positive symbols whose coefficients are all >= 0 (hence >= 0 everywhere)"""
    import sympy as sp
    e = sp.expand(e)
    if e.is_number:
        return e >= 0
    try:
        p = sp.Poly(e, *sorted(e.free_symbols, key=str))
    except Exception:
        return False
    return all(c >= 0 for c in p.coeffs())


# ---------------------------------------------------------------------------------------------
# R-ELEN: 1 <= effective_len <= len by two inductive polynomial invariants


def _nonneg_in_slacks(expr, slacks):
    """expr (sympy, positive symbols) is >= 0: as a polynomial in the slack symbols every coefficient
    is, after cancellation, a ratio whose denominator has non-negative coefficients and whose
    numerator has non-negative coefficients or is a positive constant times even powers"""
    import sympy as sp
    expr = sp.together(sp.expand(expr))
    num, den = sp.fraction(sp.cancel(expr))
    if not all_nonneg_poly(den):
        return False
    poly = sp.Poly(sp.expand(num), *slacks) if slacks else None
    coeffs = poly.coeffs() if poly is not None else [sp.expand(num)]
    for c in coeffs:
        c = sp.expand(c)
        if all_nonneg_poly(c):
            continue
        cst, facs = sp.factor_list(c)
        if cst > 0 and all(ex % 2 == 0 for _, ex in facs):
            continue
        return False
    return True


def r_effective_len(ctx, db, est, scen):
    """Invariants I1: n*S - W^2 >= 0 (Cauchy-Schwarz) and I2: W^2 - S >= 0 (weights >= 0), with
    W = sum of weights, S = sum of squared weights, n = len: established by new(), preserved by
    add (w >= 0) and merge.  With effective_len = W^2/S (decided by L0) they give 1 <= effective_len <= len."""
    import d7
    import sympy as sp
    accs = scen["acc"]
    if "sum_weights" not in accs or "sum_weights_sq" not in accs:
        return 0

    def leaf_of(name):
        for pth in accs[name][1]:
            if pth.status == "return" and is_float(pth.ret[0]) and pth.ret[0][0] == "atom":
                return field_of(pth.ret[0][1])[6:]
        return None
    lw, ls = leaf_of("sum_weights"), leaf_of("sum_weights_sq")
    ln = R.count_leaf(ctx, db, est)
    if not (lw and ls and ln):
        ctx.ob("R-ELEN", "leaves", est.path, "-", False, "cannot identify W, S, n leaves", inc=True)
        return 0
    n_ob = 0
    for kind in ("add", "merge"):
        for label, paths in scen[kind]:
            if label == "empty":
                continue
            fn = est.add if kind == "add" else est.merge
            for pth in paths:
                if pth.status != "return":
                    continue
                init, fin = pth.ret[0], pth.ret[1]
                cv = d7.Conv(positive=lambda nm: True, machine=pth.machine)
                tA, tB, uA, uB = sp.symbols("tA tB uA uB", positive=True)

                def sym(v):
                    return cv.conv(F.i2f(v)) if is_int(v) else cv.conv(v)
                W0, S0, n0 = sym(init[lw]), sym(init[ls]), sym(init[ln])
                W1, S1, n1 = sym(fin[lw]), sym(fin[ls]), sym(fin[ln])
                if not (W0.is_Symbol and S0.is_Symbol):
                    continue
                # data equalities of the path (e.g. "self has total weight 0")
                eqsub = {}
                for a_, b_ in pc_equalities(pth.pc).items():
                    try:
                        eqsub[cv.conv(a_)] = cv.conv(b_)
                    except Exception:
                        pass
                # slacks: S0 = (tA + W0^2)/n0 for I1 ; S0 = W0^2 - uA for I2 (uA in [0, W0^2])
                subs1 = {S0: (tA + W0 ** 2) / n0}
                subs2 = {S0: W0 ** 2 - uA}
                sl1, sl2 = [tA], [uA]
                if kind == "merge":
                    ib = pth.ret[2]
                    WB, SB, nB = sym(ib[lw]), sym(ib[ls]), sym(ib[ln])
                    subs1[SB] = (tB + WB ** 2) / nB
                    subs2[SB] = WB ** 2 - uB
                    sl1.append(tB)
                    sl2.append(uB)
                e1 = (n1 * S1 - W1 ** 2).subs(subs1).subs(eqsub)
                e2 = (W1 ** 2 - S1).subs(subs2).subs(eqsub)
                if eqsub:
                    # with W = 0 the invariant I2 forces S = 0 as well (slack u = W^2 - S in [0, W^2])
                    for k_, v_ in list(eqsub.items()):
                        if v_ == 0 and k_ == W0:
                            e2 = e2.subs({uA: 0})
                            e1 = e1.subs({tA: 0}) if False else e1
                ok1 = _nonneg_in_slacks(e1, sl1)
                ok2 = _nonneg_in_slacks(e2, sl2)
                n_ob += 1
                ctx.ob("R-ELEN", "%s:cauchy-schwarz" % kind, fn, R.fn_site(db, fn), ok1,
                       "%s (%s) preserves n*sum(w^2) - (sum w)^2 >= 0: the new value is %s" % (kind, label, sp.factor(sp.together(e1)) if ok1 else "not of a visibly non-negative form: %s" % sp.simplify(e1)),
                       d7=True)
                ctx.ob("R-ELEN", "%s:lower" % kind, fn, R.fn_site(db, fn), ok2,
                       "%s (%s) preserves (sum w)^2 - sum(w^2) >= 0 for weights >= 0: %s" % (kind, label, sp.expand(e2) if ok2 else "not of a visibly non-negative form: %s" % sp.simplify(e2)),
                       d7=True)
    return n_ob


# ---------------------------------------------------------------------------------------------
# R-MAG (second part): magnitude grading over the property's value box
#
# Every residual is graded by (dx, dn): it scales like s^dx * n^dn when all observations scale like s
# and the count like n.  dx is the solved physical dimension (R-DIM); dn comes from the counts in the
# expression and from the count-degree of the state fields, which the accessors fix (an intensive
# statistic such as central_moment(p) = m[p-2]/n makes m[p-2] extensive).  At the corners of the value
# box the property quantifies over, every product/quotient that contributes *significantly* (within
# 1e-14) to a new field value must be a representable f64: a factor that underflows to 0 or overflows
# although the field it feeds is representable loses the update for legal inputs.  Additions are graded
# by their largest term (no cancellation assumed: a necessary condition, not an error bound).

# a term below 1e-14 of the value it is added to is inside every envelope of DESIGN 'Error envelopes'
# even when it is lost at each of the n updates (n lost terms <= C*n*2^-53 of the scale with C ~ 100)
SIGNIFICANT = 14

N_CONTRACT = {"variance_of_mean": Fraction(-1), "variance_of_weighted_mean": Fraction(-1), "error": Fraction(-1, 2),
              "error_mean": Fraction(-1, 2), "standardized_moment(0)": Fraction(1), "sum_weights": Fraction(1),
              "sum_weights_sq": Fraction(1), "effective_len": Fraction(1)}


class _NDeg:
    """count-degree of residuals as affine forms over per-field unknowns (one axis 'N')"""

    def __init__(self):
        self.sol = DimSolver(("N",))
        self.memo = {}
        self.params = set()   # observation / weight parameters: independent of the count

    def deg(self, n):
        key = id(n)
        r = self.memo.get(key)
        if r is None or r[0] is not n:
            r = (n, self._deg(n))
            self.memo[key] = r
        return r[1]

    def _deg(self, n):
        s = self.sol
        k = n[0]
        if k == "lit":
            return POLY
        if k == "i2f":
            lin = Lin.from_key(n[1])
            return s.unit("N") if lin.terms else POLY
        if k == "atom":
            if n[1] in self.params:
                return s.zero()
            return s.unknown(field_of(n[1]))
        if k == "neg":
            return self.deg(n[1])
        if k in ("add", "sub"):
            a, b = self.deg(n[1]), self.deg(n[2])
            if a is POLY:
                return b
            if b is POLY:
                return a
            if a is None or b is None:
                return None
            ra, rb = s._resolve(a, 0), s._resolve(b, 0)
            if ra == rb:
                return a
            if not ra[1] and not rb[1]:
                return a if ra[0] >= rb[0] else b
            return None
        if k in ("mul", "div"):
            a, b = self.deg(n[1]), self.deg(n[2])
            if a is None or b is None:
                return None
            if a is POLY:
                a = s.zero()
            if b is POLY:
                b = s.zero()
            return a.add(b, 1 if k == "mul" else -1)
        if k == "fn":
            name = n[1]
            if name == "sqrt":
                a = self.deg(n[2])
                return a if a is None or a is POLY else a.scale(Fraction(1, 2))
            if name == "abs":
                return self.deg(n[2])
            if name == "powi" and isinstance(n[3], int):
                a = self.deg(n[2])
                return a if a is None or a is POLY else a.scale(n[3])
            if name == "powf" and F.is_lit(n[3]):
                a = self.deg(n[2])
                return a if a is None or a is POLY else a.scale(Fraction(F.litval(n[3])).limit_denominator(64))
        return None

    def value(self, n):
        """solved count-degree (Fraction) or None when it depends on an unsolved field"""
        d = self.deg(n)
        if d is None:
            return None
        if d is POLY:
            return Fraction(0)
        c, t = self.sol._resolve(d, 0)
        return None if t else c


def r_mag_box(ctx, db, est, scen, box):
    """box = dict(smin, smax, nmax, order): observations scale within [smin, smax], counts up to nmax,
    and n * smax^order is representable (the property's no-overflow restriction)"""
    import math
    sol = scen.get("dim_solver")
    if sol is None:
        return 0
    ax = sol.axes.index("X")
    nd = _NDeg()
    # 1. accessors fix the count-degree of the fields
    for name, (p, paths) in sorted(scen["acc"].items()):
        want = N_CONTRACT.get(name, N_CONTRACT.get(name.split("(")[0], Fraction(0)))
        for pth in paths:
            if pth.status != "return" or not is_float(pth.ret[0]):
                continue
            d = nd.deg(pth.ret[0])
            if d is None or d is POLY:
                continue
            try:
                nd.sol.equate(d, nd.sol.unit("N", want), "count-degree of %s" % name)
            except Clash:
                pass
    order = box.get("order") or 1
    corners = []
    for n_ in (2.0, float(box["nmax"])):
        smax = min(box["smax"], (1e300 / n_) ** (1.0 / order))
        for s_ in (box["smin"], smax):
            corners.append((math.log10(s_), math.log10(n_), "scale %.0e, n = %.0e" % (s_, n_)))
    LO, HI = math.log10(2.3e-308), math.log10(1.7e308)
    n_ob = 0

    def xdeg(x):
        try:
            d = sol.dim(x)
        except Clash:
            return None
        if d is POLY:
            return Fraction(0)
        dx = Fraction(0)
        for a in range(len(sol.axes)):
            c, t = sol._resolve(d, a)
            if t:
                return None
            if sol.axes[a] != "W":
                dx += c
        return dx

    def mag(x, corner, memo):
        """log10 magnitude of node x at a corner; None = unknown, -inf = exact zero"""
        key = id(x)
        if key in memo:
            return memo[key]
        k = x[0]
        r = None
        if k == "lit":
            v = abs(F.litval(x))
            r = -math.inf if v == 0 else (None if v != v or v == math.inf else math.log10(v))
        elif k == "i2f":
            lin = Lin.from_key(x[1])
            r = corner[1] if lin.terms else (math.log10(abs(lin.c)) if lin.c else -math.inf)
        elif k == "atom":
            dx, dn = xdeg(x), nd.value(x)
            r = None if dx is None or dn is None else float(dx) * corner[0] + float(dn) * corner[1]
        elif k in ("neg",):
            r = mag(x[1], corner, memo)
        elif k == "fn" and x[1] == "abs":
            r = mag(x[2], corner, memo)
        elif k in ("add", "sub"):
            a, b = mag(x[1], corner, memo), mag(x[2], corner, memo)
            r = None if a is None or b is None else max(a, b)
        elif k in ("mul", "div"):
            a, b = mag(x[1], corner, memo), mag(x[2], corner, memo)
            if a is None or b is None:
                r = None
            elif k == "mul":
                r = -math.inf if -math.inf in (a, b) else a + b
            else:
                r = None if b == -math.inf else (-math.inf if a == -math.inf else a - b)
        elif k == "fn" and x[1] == "sqrt":
            a = mag(x[2], corner, memo)
            r = None if a is None else a / 2
        elif k == "fn" and x[1] == "powi" and isinstance(x[3], int):
            a = mag(x[2], corner, memo)
            r = None if a is None else (a * x[3] if a != -math.inf else (-math.inf if x[3] > 0 else None))
        memo[key] = r
        return r

    def walk(x, corner, memo, seen, bad):
        """visit the significant part of x; record unrepresentable products"""
        if id(x) in seen:
            return
        seen.add(id(x))
        k = x[0]
        if k in ("add", "sub"):
            m_ = mag(x, corner, memo)
            for c in x[1:]:
                mc = mag(c, corner, memo)
                if m_ is None or mc is None or mc >= m_ - SIGNIFICANT:
                    walk(c, corner, memo, seen, bad)
        elif k in ("mul", "div"):
            m_ = mag(x, corner, memo)
            if m_ is not None and m_ != -math.inf and (m_ < LO or m_ > HI):
                bad.append((m_, x))
            walk(x[1], corner, memo, seen, bad)
            walk(x[2], corner, memo, seen, bad)
        elif k == "neg":
            walk(x[1], corner, memo, seen, bad)
        elif k == "fn":
            if x[1] == "powi":
                m_ = mag(x, corner, memo)
                if m_ is not None and m_ != -math.inf and (m_ < LO or m_ > HI):
                    bad.append((m_, x))
            for c in x[2:]:
                if isinstance(c, tuple) and c and c[0] in F_TAGS:
                    walk(c, corner, memo, seen, bad)

    def check(where, fn, v, field_mag_known):
        nonlocal n_ob
        worst = None
        for corner in corners:
            memo = {}
            top = mag(v, corner, memo)
            if top is None or top == -math.inf or top < LO or top > HI:
                continue   # the field value itself is outside the representable range at this corner: not this rule's business
            bad = []
            walk(v, corner, memo, set(), bad)
            for m_, x in bad:
                sev = (LO - m_) if m_ < LO else (m_ - HI)
                if worst is None or sev > worst[0]:
                    worst = (sev, m_, x, corner, top)
        n_ob += 1
        if worst is None:
            ctx.ob("R-MAG", "%s:representable" % where, fn, R.fn_site(db, fn), True,
                   "%s: every significant product is a representable f64 at the %d corners of the value box" % (where, len(corners)))
        else:
            sev, m_, x, corner, top = worst
            ctx.ob("R-MAG", "%s:representable" % where, fn, R.fn_site(db, fn), False,
                   "%s: at %s the new value is about 1e%.0f (representable) but its factor %s is about 1e%.0f — it %s, so the update is lost for legal data" % (
                       where, corner[2], top, F.show(x)[:150], m_, "underflows" if m_ < LO else "overflows"),
                   sample={"factor": F.show(x)[:240], "log10_factor": round(m_, 1), "log10_value": round(top, 1), "corner": corner[2]})

    for kind in ("add", "merge"):
        for label, paths in scen[kind]:
            fn = est.add if kind == "add" else est.merge
            for pth in paths:
                if pth.status != "return":
                    continue
                if kind == "add":
                    for xv in pth.ret[2]:
                        if is_float(xv) and xv[0] == "atom" and xv[1] not in nd.params:
                            nd.params.add(xv[1])
                            nd.memo.clear()
                for leaf, v in sorted(pth.ret[1].items()):
                    if is_float(v) and v != pth.ret[0].get(leaf):
                        check("%s:%s" % (kind, leaf), fn, v, True)
    for name, (p, paths) in sorted(scen["acc"].items()):
        for pth in paths:
            if pth.status == "return" and is_float(pth.ret[0]):
                check(name, p, pth.ret[0], True)
    return n_ob


# ---------------------------------------------------------------------------------------------
# R-MAG at the largest finite values: properties quantified over *all* finite observations
# (C07, C15 small-sample path) must not overflow when every observation is as large as f64::MAX.


def overflow_at_max(node):
    """upper bound (log10) of every intermediate when each leaf (atom / sorted copy) has magnitude
    <= f64::MAX and literals are themselves; returns the smallest sub-expression whose bound exceeds
    f64::MAX although it is built from a sum/difference/product of representable values, or None"""
    import math
    MAXL = math.log10(1.7976931348623157e308)
    memo = {}
    bad = []

    def ub(x):
        k = id(x)
        if k in memo:
            return memo[k]
        t = x[0]
        r = None
        if t == "lit":
            v = abs(F.litval(x))
            r = -math.inf if v == 0 else (None if v != v else (math.inf if v == math.inf else math.log10(v)))
        elif t == "atom" or (t == "fn" and x[1] == "sorted"):
            r = MAXL
        elif t == "i2f":
            r = None
        elif t == "neg" or (t == "fn" and x[1] == "abs"):
            r = ub(x[1] if t == "neg" else x[2])
        elif t in ("add", "sub"):
            a, b = ub(x[1]), ub(x[2])
            if a is not None and b is not None:
                hi, lo = max(a, b), min(a, b)
                r = hi if lo == -math.inf else hi + math.log10(1 + 10 ** (lo - hi))
        elif t == "mul":
            a, b = ub(x[1]), ub(x[2])
            if a is not None and b is not None:
                r = -math.inf if -math.inf in (a, b) else a + b
        elif t == "div":
            a, b = ub(x[1]), ub(x[2])
            if a is not None and x[2][0] == "lit" and b not in (None, -math.inf):
                r = a - b
        elif t == "fn" and x[1] in ("min", "max"):
            a, b = ub(x[2]), ub(x[3])
            if a is not None and b is not None:
                r = max(a, b)
        if r is not None and r != math.inf and r > MAXL + 1e-9 and t in ("add", "sub", "mul", "div"):
            bad.append((F.size(x), x, r))
        memo[k] = r
        return r
    ub(node)
    if not bad:
        return None
    bad.sort(key=lambda t_: t_[0])
    return bad[0][1], bad[0][2]


# ---------------------------------------------------------------------------------------------
# R-PREC: no statistic is routed through f32


def r_prec(ctx, db, est, scen):
    """every accessor result and every new field value of add/merge is computed in f64: a
    non-constant value converted to f32 (24 bits) is outside every error envelope of the properties"""
    n_ob = 0

    def has_f32(v):
        for x in all_nodes(v, set()):
            if x[0] == "fn" and x[1] == "lossy_f32":
                return x
        return None

    def check(where, fn, v):
        nonlocal n_ob
        n_ob += 1
        x = has_f32(v)
        ctx.ob("R-PREC", "%s:f64-only" % where, fn, R.fn_site(db, fn), x is None,
               "%s: computed in f64 throughout" % where if x is None else
               "%s: the value %s is converted to f32 (24 significant bits) on the way to the result — far outside the envelope" % (where, F.show(x[2])[:120]))
    for name, (p, paths) in sorted(scen["acc"].items()):
        for pth in paths:
            if pth.status == "return" and is_float(pth.ret[0]):
                check(name, p, pth.ret[0])
    for kind in ("add", "merge"):
        for label, paths in scen[kind]:
            fn = est.add if kind == "add" else est.merge
            for pth in paths:
                if pth.status != "return":
                    continue
                for leaf, v in sorted(pth.ret[1].items()):
                    if is_float(v) and v != pth.ret[0].get(leaf):
                        check("%s:%s" % (kind, leaf), fn, v)
    return n_ob
