"""Float residuals: hash-consed expression DAG over atoms, with only IEEE-exact identities applied
at construction (DESIGN §2.3).  Nodes are plain tuples so they hash and compare structurally.

  ('atom', name)                 an abstract f64 (entry field value, parameter, iterator item)
  ('lit', bits)                  a literal, identified by its bit pattern (int)
  ('i2f', lin)                   an integer (Lin or int) converted to f64
  ('add'|'sub'|'mul'|'div', a, b)
  ('neg', a)
  ('fn', name, a, ...)           library function (sqrt, powf, powi, abs, signum, ceil, floor, min, max, ...)
  ('opq', tag)                   unknown float (result of an unmodelled call)
"""
import math
import struct

from lin import Lin


def f2bits(x):
    return struct.unpack("<Q", struct.pack("<d", x))[0]


def bits2f(b):
    return struct.unpack("<d", struct.pack("<Q", b))[0]


def lit(x):
    return ("lit", f2bits(float(x)))


class Unsupported(Exception):
    """construct outside the modelled fragment (re-exported by machine.py)"""


# Residuals are structural tuples: hashing and comparing a node costs its size *as a tree*.  A loop
# that feeds a value back several times per iteration (Newton steps, repeated squaring) makes that
# size exponential in the iteration count while the DAG stays small, so the tree size of every
# composite node is tracked (by object identity; the table keeps big nodes alive) and construction
# stops with Unsupported beyond TREE_LIMIT instead of hanging in a later hash.
TREE_LIMIT = 1_000_000_000
_TSIZE = {}
_SMALL = 48


def tsize(n):
    e = _TSIZE.get(id(n))
    if e is not None and e[0] is n:
        return e[1]
    if not isinstance(n, tuple) or n[0] in ("atom", "lit", "i2f", "opq"):
        return 1
    # an untracked composite is small (<= _SMALL) or was built outside mk()/fn(): count it
    return 1 + sum(tsize(k) for k in (n[2:] if n[0] == "fn" else n[1:]) if isinstance(k, tuple))


class N(tuple):
    """composite residual node: a tuple whose hash is computed once.  Nodes built by mk()/fn() are
    interned, so structurally equal residuals are the same object and dict/set operations on deep
    shared DAGs stay linear in the DAG size."""

    def __hash__(self):
        d = self.__dict__
        h = d.get("_h")
        if h is None:
            h = d["_h"] = tuple.__hash__(self)
        return h

    def __eq__(self, o):
        return self is o or tuple.__eq__(self, o)

    def __ne__(self, o):
        return not (self is o or tuple.__eq__(self, o))


_INTERN = {}


def _new(node, *kids):
    node = N(node)
    node = _INTERN.setdefault(node, node)
    if id(node) in _TSIZE:
        return node
    s = 1
    for k in kids:
        if isinstance(k, tuple):
            s += tsize(k)
    if s > _SMALL:
        if s > TREE_LIMIT:
            raise Unsupported("floating-point expression grows beyond %d nodes (a value fed back through a long loop)" % TREE_LIMIT)
        _TSIZE[id(node)] = (node, s)
    return node


ZERO = lit(0.0)
ONE = lit(1.0)
NAN = ("lit", f2bits(float("nan")))
INF = lit(float("inf"))
NINF = lit(float("-inf"))


def atom(name):
    return ("atom", name)


def is_lit(n):
    return n[0] == "lit"


def litval(n):
    return bits2f(n[1])


def is_zero(n):
    return n[0] == "lit" and litval(n) == 0.0


def is_one(n):
    return n[0] == "lit" and litval(n) == 1.0


def is_nan_lit(n):
    return n[0] == "lit" and math.isnan(litval(n))


def i2f(v):
    """integer (python int or Lin) -> float node"""
    if isinstance(v, Lin):
        c = v.as_const()
        if c is None:
            return ("i2f", v.key())
        v = c
    return lit(float(v))


class Ctx:
    """Simplification context: which non-IEEE-exact-in-general identities may be used.

    finite: all residuals are finite (property domain excludes NaN/inf inputs and overflow), so
            x - x = 0 and 0 * x = 0 hold.
    nonzero(node) -> bool: oracle for 'node is known non-zero' (used for 0 / x = 0, x / x = 1).
    """

    def __init__(self, finite=False, nonzero=None, fold_inexact=False):
        self.finite = finite
        self.nonzero = nonzero or (lambda n: False)
        # fold literal arithmetic even when the IEEE result is inexact (used when every input is a
        # literal and the program's own floating-point arithmetic is what is being evaluated)
        self.fold_inexact = fold_inexact


DEFAULT = Ctx()


def _exact(op, x, y, r):
    """is the IEEE result r of x op y exact over the reals?"""
    from fractions import Fraction
    if r != r or abs(r) == float("inf") or x != x or y != y or abs(x) == float("inf") or abs(y) == float("inf"):
        return True
    fx, fy = Fraction(x), Fraction(y)
    if op == "add":
        return fx + fy == Fraction(r)
    if op == "sub":
        return fx - fy == Fraction(r)
    if op == "mul":
        return fx * fy == Fraction(r)
    if op == "div":
        return fy != 0 and fx / fy == Fraction(r)
    return False


def _fold2(op, a, b, ctx=None):
    x, y = litval(a), litval(b)
    r0 = _fold2_raw(op, a, b)
    if ctx is not None and ctx.fold_inexact:
        return r0
    if not _exact(op, x, y, litval(r0)):
        # keep inexact literal arithmetic symbolic: residuals denote real-number expressions and
        # a folded literal would bake one rounding into them
        return (op, a, b)
    return r0


def _fold2_raw(op, a, b):
    x, y = litval(a), litval(b)
    try:
        if op == "add":
            r = x + y
        elif op == "sub":
            r = x - y
        elif op == "mul":
            r = x * y
        elif op == "div":
            if y == 0.0:
                if x == 0.0 or math.isnan(x):
                    r = float("nan")
                else:
                    neg = (math.copysign(1.0, x) < 0) != (math.copysign(1.0, y) < 0)
                    r = float("-inf") if neg else float("inf")
            else:
                r = x / y
        else:
            raise ValueError(op)
    except OverflowError:
        r = float("inf")
    return lit(r)


def mk(op, a, b=None, ctx=DEFAULT):
    if op == "neg":
        if is_lit(a):
            return lit(-litval(a))
        if a[0] == "neg":
            return a[1]
        return _new(("neg", a), a)
    if is_lit(a) and is_lit(b):
        return _fold2(op, a, b, ctx)
    # NaN literal absorbs
    if is_nan_lit(a) or is_nan_lit(b):
        return NAN
    if op == "add":
        if is_zero(a):
            return b
        if is_zero(b):
            return a
    elif op == "sub":
        if is_zero(b):
            return a
        if is_zero(a):
            return mk("neg", b)
        if ctx.finite and a == b:
            return ZERO
    elif op == "mul":
        if is_one(a):
            return b
        if is_one(b):
            return a
        if ctx.finite and (is_zero(a) or is_zero(b)):
            return ZERO
    elif op == "div":
        if is_one(b):
            return a
        if is_zero(a) and ctx.nonzero(b) and ctx.finite:
            return ZERO
        if ctx.finite and a == b and ctx.nonzero(b):
            return ONE
    return _new((op, a, b), a, b)


# set by the evaluator while it runs with Config.fold_inexact (all inputs literal: the program's own
# floating-point arithmetic is being evaluated)
FOLD_INEXACT = [False]


def fn(name, *args):
    if all(isinstance(a, tuple) and a and a[0] == "lit" for a in args if isinstance(a, tuple)):
        vals = [litval(a) if isinstance(a, tuple) else a for a in args]
        try:
            if name == "sqrt":
                v = vals[0]
                if math.isnan(v) or v < 0:
                    return NAN
                r = math.sqrt(v)
                from fractions import Fraction
                if r == float("inf") or Fraction(r) * Fraction(r) == Fraction(v) or FOLD_INEXACT[0]:
                    return lit(r)
                return ("fn", name) + tuple(args)
            if name == "abs":
                return lit(abs(vals[0]))
            if name == "ceil" and math.isfinite(vals[0]):
                return lit(float(math.ceil(vals[0])))
            if name == "floor" and math.isfinite(vals[0]):
                return lit(float(math.floor(vals[0])))
            if name == "signum":
                v = vals[0]
                if math.isnan(v):
                    return NAN
                return lit(math.copysign(1.0, v))
            if name == "min":
                a, b = vals
                if math.isnan(a):
                    return lit(b)
                if math.isnan(b):
                    return lit(a)
                return lit(min(a, b))
            if name == "max":
                a, b = vals
                if math.isnan(a):
                    return lit(b)
                if math.isnan(b):
                    return lit(a)
                return lit(max(a, b))
            if name == "powi" and isinstance(vals[1], int):
                from fractions import Fraction
                r = vals[0] ** vals[1]
                if (vals[1] >= 0 and abs(r) != float("inf") and Fraction(r) == Fraction(vals[0]) ** vals[1]) or FOLD_INEXACT[0]:
                    return lit(r)
                return ("fn", name) + tuple(args)
        except (OverflowError, ValueError):
            pass
    return _new(("fn", name) + tuple(args), *args)


def atoms(n, acc=None):
    """set of atom names / i2f keys / opaque tags a node depends on"""
    if acc is None:
        acc = set()
    stack = [n]
    seen = set()
    while stack:
        x = stack.pop()
        if not isinstance(x, tuple) or id(x) in seen:
            continue
        seen.add(id(x))
        k = x[0]
        if k == "atom":
            acc.add(x[1])
        elif k == "i2f":
            for s, _ in x[1][0]:
                acc.add("int:" + s)
        elif k == "opq":
            acc.add("opq:" + str(x[1]))
        elif k == "lit":
            pass
        elif k == "fn":
            stack.extend(a for a in x[2:] if isinstance(a, tuple))
        else:
            stack.extend(a for a in x[1:] if isinstance(a, tuple))
    return acc


def has_opaque(n):
    return any(a.startswith("opq:") for a in atoms(n))


SHOW_LIMIT = 4000


def show(n, depth=0):
    if not isinstance(n, tuple):
        return str(n)
    k = n[0]
    if k == "atom":
        return n[1]
    if k == "lit":
        v = litval(n)
        return repr(v)
    if k == "i2f":
        return "f(" + Lin.from_key(n[1]).show() + ")"
    if k == "opq":
        return "?%s" % (n[1],)
    if depth > 40:
        return "..."
    if depth > 0 and tsize(n) > SHOW_LIMIT:
        # a shared DAG printed as a tree is exponential: abbreviate (only diagnostics use the text)
        return "<%s-expression of %d nodes>" % (n[1] if k == "fn" else k, tsize(n))
    if k == "neg":
        return "-(" + show(n[1], depth + 1) + ")"
    if k == "fn":
        return "%s(%s)" % (n[1], ", ".join(show(a, depth + 1) for a in n[2:]))
    sym = {"add": "+", "sub": "-", "mul": "*", "div": "/"}[k]
    return "(" + show(n[1], depth + 1) + " " + sym + " " + show(n[2], depth + 1) + ")"


def size(n):
    seen = set()
    stack = [n]
    c = 0
    while stack:
        x = stack.pop()
        if not isinstance(x, tuple) or x in seen:
            continue
        seen.add(x)
        c += 1
        if x[0] in ("add", "sub", "mul", "div", "neg"):
            stack.extend(x[1:])
        elif x[0] == "fn":
            stack.extend(a for a in x[2:] if isinstance(a, tuple))
    return c


def subst(n, mapping, memo=None):
    """replace nodes according to `mapping` (node -> node), rebuilding with the plain constructors"""
    if memo is None:
        memo = {}
    if n in mapping:
        return mapping[n]
    if n in memo:
        return memo[n]
    k = n[0]
    if k in ("atom", "lit", "i2f", "opq"):
        r = n
    elif k == "neg":
        r = mk("neg", subst(n[1], mapping, memo))
    elif k in ("add", "sub", "mul", "div"):
        r = mk(k, subst(n[1], mapping, memo), subst(n[2], mapping, memo))
    elif k == "fn":
        r = ("fn", n[1]) + tuple(subst(a, mapping, memo) if isinstance(a, tuple) and a and a[0] in
                                 ("atom", "lit", "i2f", "add", "sub", "mul", "div", "neg", "fn", "opq") else a for a in n[2:])
    else:
        r = n
    memo[n] = r
    return r
