//! Harness crate for the static analysis of vks/average: macro instantiations only.
#![allow(dead_code, missing_docs, clippy::all)]

pub mod m4 {
    average::define_moments!(M4, 4);
}
pub mod m5 {
    average::define_moments!(M5, 5);
}
pub mod m6 {
    average::define_moments!(M6, 6);
}
pub mod m8 {
    average::define_moments!(M8, 8);
}
pub mod m10 {
    average::define_moments!(M10, 10);
}

average::define_histogram!(h1, 1);
average::define_histogram!(h2, 2);
average::define_histogram!(h3, 3);
average::define_histogram!(h4, 4);
average::define_histogram!(h10, 10);
average::define_histogram!(h100, 100);

pub mod cat {
    use average::{concatenate, Estimate, Max, Mean, Min, Variance};
    #[cfg(any(feature = "std", feature = "libm"))]
    use average::{Kurtosis, Quantile, Skewness};

    // short syntax, two fields
    concatenate!(pub MinMax, [Min, min], [Max, max]);
    // short syntax, one field
    concatenate!(pub OnlyMean, [Mean, mean]);
    // long syntax: several statistics per field
    concatenate!(pub MeanVar, [Variance, var, mean, sample_variance, population_variance]);
    // long syntax mixed, three fields
    concatenate!(pub Three, [Min, lo, min], [Variance, v, mean, sample_variance], [Max, hi, max]);
    #[cfg(any(feature = "std", feature = "libm"))]
    concatenate!(pub WithQuantile, [Quantile, quantile], [Mean, mean]);
    #[cfg(any(feature = "std", feature = "libm"))]
    concatenate!(pub Shape, [Skewness, skewness], [Kurtosis, kurtosis]);
    #[cfg(any(feature = "std", feature = "libm"))]
    concatenate!(pub Four, [Min, lo, min], [Max, hi, max], [Kurtosis, k, mean, kurtosis, skewness], [Quantile, q, quantile]);
}
