#!/usr/bin/env python3
"""Regenerate /verif/MANIFEST.json from analysis/props.py (single source of truth for what is claimed)."""
import json, os, sys
sys.path.insert(0, "/verif/analysis")
import props

ids = [json.loads(l)["id"] for l in open("/verif/properties.jsonl")]
checks, na = [], []
for pid in ids:
    sp = props.PROPS.get(pid)
    if sp is None or sp.get("claimed", True) is False:
        na.append({"property_id": pid, "reason": (sp or {}).get("na_reason", "static check for this property is not built yet (see DESIGN.md section 10)")})
        continue
    checks.append({
        "property_id": pid,
        "quick_cmd": "./check %s --tier quick" % pid,
        "thorough_cmd": "./check %s --tier thorough" % pid,
        "evidence_file": "/verif/evidence/%s.json" % pid,
        "replay_cmd_template": "./check %s --replay {path}" % pid,
        "engine": "avg-static",
        "level_claimed": {"category": sp["level"], "text": sp.get("level_text", sp["explanation"]), "design_ref": sp.get("design_ref", "DESIGN.md section 5, " + pid)},
        "level_note": sp.get("level_note", "Trusted: rustc front end and MIR construction, the library summaries of analysis/summaries.py, IEEE-754 identities of DESIGN.md section 2."),
        "technique": sp.get("technique", "static analysis: abstract interpretation of the MIR of /repo (partial evaluation with abstract data) + rule engine"),
    })
m = {
    "version": 1,
    "setup_cmd": "cd /verif && python3 analysis/extract.py --build-only",
    "hooks": {"guard": "vks_average_verif", "enable": "none needed: the analysis reads the unmodified source through the compiler (cargo +nightly check with /verif/driver as RUSTC_WRAPPER); nothing in /repo is executed",
              "baseline_off_cmd": "cd /repo && cargo test --workspace --no-fail-fast --offline", "source_commits": [], "add_only": True},
    "engines": [{"name": "avg-static", "path": "/verif/analysis", "serves_properties": [c["property_id"] for c in checks],
                 "kind_free_text": "rustc_private MIR fact extractor (/verif/driver) + Python partial evaluator over abstract data (machine.py) + abstract domains (order types, affine integers, sign, dimension, shift degree, exact rational identity testing) + rule engine (rules.py, props.py)"}],
    "checks": checks,
    "not_applicable": na,
    "notes": "Static analysis only. ./check <id> re-extracts facts from /repo's current working tree (content-hashed cache under /verif/.cache). INCONCLUSIVE lines (analysis could not decide an obligation) are informational and never reported as VIOLATION.",
}
json.dump(m, open("/verif/MANIFEST.json", "w"), indent=1)
print("claimed:", [c["property_id"] for c in checks], "n/a:", [x["property_id"] for x in na])
