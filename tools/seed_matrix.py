#!/usr/bin/env python3
"""Run the checks against every seeded change under /verif/seeded (apply to /repo, run, undo) and
write /verif/seeded/MATRIX.json: which checks report a violation for which change."""
import json, os, subprocess, sys, re

VERIF = os.path.dirname(os.path.dirname(os.path.abspath(__file__)))
SEEDED = os.path.join(VERIF, "seeded")
REPO = os.environ.get("AVG_REPO", "/repo")   # a scratch copy may be patched instead of /repo
only = sys.argv[1:]
tier = os.environ.get("TIER", "quick")
res = {}
if os.path.exists(os.path.join(SEEDED, "MATRIX.json")):
    res = json.load(open(os.path.join(SEEDED, "MATRIX.json")))
assert subprocess.run(["git", "-C", REPO, "diff", "--quiet"]).returncode == 0, REPO + " dirty"
for name in sorted(os.listdir(SEEDED)):
    d = os.path.join(SEEDED, name)
    if not os.path.isdir(d) or (only and not any(o in name for o in only)):
        continue
    meta = json.load(open(os.path.join(d, "meta.json")))
    pid = meta["breaks_property"]
    props = [pid] + [p for p in meta.get("also_run", []) if p != pid]
    r = subprocess.run(["git", "-C", REPO, "apply", os.path.join(d, "patch.diff")])
    if r.returncode != 0:
        res[name] = {"error": "patch does not apply"}
        continue
    try:
        entry = {"property": pid, "checks": {}}
        for p in props:
            env = dict(os.environ, VERIF_EVIDENCE_DIR="/tmp/ev-scratch-%d" % os.getpid(), AVG_REPO=REPO)
            os.makedirs(env["VERIF_EVIDENCE_DIR"], exist_ok=True)
            out = subprocess.run([os.path.join(VERIF, "check"), p, "--tier", tier], cwd=VERIF, env=env, stdout=subprocess.PIPE, stderr=subprocess.STDOUT, text=True)
            rules = sorted(set(re.findall(r"^  \[([A-Z0-9-]+)\] ([^ ]+)", out.stdout, re.M)))
            first = [l.strip()[:300] for l in out.stdout.splitlines() if l.startswith("  [")][:2]
            entry["checks"][p] = {"exit": out.returncode, "violation_keys": ["%s %s" % r_ for r_ in rules][:8], "first": first,
                                  "inconclusive": out.stdout.count("INCONCLUSIVE:")}
        entry["detected"] = any(c["exit"] == 1 for c in entry["checks"].values())
        res[name] = entry
        print(name, "DETECTED" if entry["detected"] else "MISSED", {p: c["exit"] for p, c in entry["checks"].items()}, flush=True)
    finally:
        subprocess.run(["git", "-C", REPO, "checkout", "--", "."])
        subprocess.run(["git", "-C", REPO, "clean", "-fdq", "-e", "target"])   # files a patch created
json.dump(res, open(os.path.join(SEEDED, "MATRIX.json"), "w"), indent=1)
det = sum(1 for v in res.values() if v.get("detected"))
print("detected %d / %d" % (det, len(res)))
