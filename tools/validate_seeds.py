#!/usr/bin/env python3
"""Validate seeded changes delivered by the adversary sub-agents against the CURRENT /repo HEAD:
the patch applies, the crate builds, the whole existing test suite passes with the patch, the
demonstration fails with the patch and passes without it.  Accepted changes are stored under
/verif/seeded/<name>/ (patch.diff, demo.rs, meta.json).

usage: validate_seeds.py <outdir-of-agent> <property-id> [k ...]
Runs in scratch worktrees under /tmp/val (removed afterwards).
"""
import json
import os
import re
import shutil
import subprocess
import sys
import tempfile

REPO = "/repo"
ENV = dict(os.environ, CARGO_NET_OFFLINE="true")


def sh(cmd, cwd, timeout=1200):
    r = subprocess.run(cmd, cwd=cwd, shell=True, stdout=subprocess.PIPE, stderr=subprocess.STDOUT, text=True, env=ENV, timeout=timeout)
    return r.returncode, r.stdout


def features_of(demo_text, pid):
    m = re.search(r"--features[ =]+([\w,]+)", demo_text)
    if m:
        # the nightly-only sibling is not needed to show a change (and does not build on stable)
        # the nightly-only sibling does not build on stable: kept only when the demonstration is run with +nightly
        keep_nightly = "cargo +nightly" in demo_text
        fs = [f for f in m.group(1).split(",") if f and (f != "nightly" or keep_nightly)]
        return ",".join(fs)
    return {"C18": "serde", "C19": "rayon"}.get(pid, "")


def validate(outdir, pid, k):
    patch = os.path.join(outdir, "patch%d.rebased.diff" % k)
    if not os.path.exists(patch):
        patch = os.path.join(outdir, "patch%d.diff" % k)
    demo = os.path.join(outdir, "demo%d.rs" % k)
    note = os.path.join(outdir, "note%d.md" % k)
    if not (os.path.exists(patch) and os.path.exists(demo)):
        return {"ok": False, "why": "missing deliverable"}
    demo_text = open(demo).read()
    feats = features_of(demo_text, pid)
    fflag = ("--features " + feats) if feats else ""
    if re.search(r"cargo (\+nightly )?test[^\n]*--release", demo_text):
        fflag += " --release"   # the demonstration needs a build without debug assertions
    if re.search(r"cargo (\+nightly )?test[^\n]*--no-default-features", demo_text):
        fflag += " --no-default-features"
    tc = "+nightly " if ("nightly" in feats.split(",")) else ""
    wt = tempfile.mkdtemp(prefix="val-%s-%d-" % (pid, k), dir="/tmp")
    os.rmdir(wt)
    res = {"property": pid, "k": k, "features": feats, "ran": []}
    try:
        rc, out = sh("git worktree add -q --detach %s HEAD" % wt, REPO)
        if rc != 0:
            return {"ok": False, "why": "worktree: " + out[-300:]}
        shutil.copy(demo, os.path.join(wt, "tests", "seed_demo.rs"))
        # 1. demo passes on the unchanged tree
        rc, out = sh("cargo %stest --offline %s --test seed_demo 2>&1 | tail -15" % (tc, fflag), wt)
        res["ran"].append("cargo %stest --offline %s --test seed_demo   (unchanged tree)" % (tc, fflag))
        base_ok = "test result: ok" in out and "FAILED" not in out
        res["demo_passes_without"] = base_ok
        if not base_ok:
            res["ok"] = False
            res["why"] = "demo does not pass on the current tree: " + out[-600:]
            return res
        # 2. apply
        rc, out = sh("git apply %s" % patch, wt)
        if rc != 0:
            res["ok"] = False
            res["why"] = "patch does not apply to the current HEAD: " + out[-300:]
            return res
        os.remove(os.path.join(wt, "tests", "seed_demo.rs"))
        # 3. existing suite passes
        rc, out = sh("cargo test --workspace --no-fail-fast --offline 2>&1 | grep -E '^test result|FAILED|^error' | head -20", wt)
        res["ran"].append("cargo test --workspace --no-fail-fast --offline   (with the change)")
        suite_ok = "FAILED" not in out and not out.startswith("error") and "\nerror" not in out and out.count("test result: ok") >= 3
        res["suite_passes_with"] = suite_ok
        res["suite_summary"] = out.strip().splitlines()[:4]
        if feats:
            rc, out2 = sh("cargo " + tc + "test --offline --features %s --test integration 2>&1 | grep -E '^test result|FAILED|^error' | head" % feats, wt)
            res["ran"].append("cargo test --offline --features %s --test integration   (with the change)" % feats)
            f_ok = "FAILED" not in out2 and "test result: ok" in out2
            res["suite_passes_with_features"] = f_ok
            # the pinned baseline (60 tests) is the default-feature suite; for the feature-specific
            # properties C18/C19 the feature suite is required too, otherwise it is recorded only
            if pid in ("C18", "C19"):
                suite_ok = suite_ok and f_ok
        if not suite_ok:
            res["ok"] = False
            res["why"] = "existing suite fails with the change: " + out[-400:]
            return res
        # 4. demo fails with the change
        shutil.copy(demo, os.path.join(wt, "tests", "seed_demo.rs"))
        rc, out = sh("cargo %stest --offline %s --test seed_demo 2>&1 | tail -25" % (tc, fflag), wt)
        res["ran"].append("cargo %stest --offline %s --test seed_demo   (with the change)" % (tc, fflag))
        fails = "FAILED" in out or "test result: FAILED" in out
        res["demo_fails_with"] = fails
        res["demo_output_tail"] = out.strip().splitlines()[-6:]
        res["ok"] = bool(fails)
        if not fails:
            res["why"] = "demo does not fail with the change"
        res["patch"] = patch
        res["demo"] = demo
        res["note"] = note if os.path.exists(note) else None
        return res
    finally:
        sh("git worktree remove --force %s" % wt, REPO)
        shutil.rmtree(wt, ignore_errors=True)


def main():
    outdir, pid = sys.argv[1], sys.argv[2]
    ks = [int(x) for x in sys.argv[3:]] or [1, 2]
    for k in ks:
        r = validate(outdir, pid, k)
        print(json.dumps(r, indent=1))
        if r.get("ok"):
            batch = os.environ.get("SEED_BATCH", "a")
            name = "%s-%s%d" % (pid, batch, k)
            d = os.path.join("/verif/seeded", name)
            os.makedirs(d, exist_ok=True)
            shutil.copy(r["patch"], os.path.join(d, "patch.diff"))
            shutil.copy(r["demo"], os.path.join(d, "demo.rs"))
            note = open(r["note"]).read() if r.get("note") else ""
            meta = {"breaks_property": pid, "name": name, "features": r["features"],
                    "needs_to_manifest": note, "validated_against_repo_head": subprocess.check_output(["git", "-C", REPO, "rev-parse", "--short", "HEAD"], text=True).strip(),
                    "what_was_run": r["ran"], "suite_summary": r.get("suite_summary"), "feature_suite_passes_with_change": r.get("suite_passes_with_features"), "demo_output_with_change": r.get("demo_output_tail"),
                    "origin": "independent sub-agent given only the property text and a scratch worktree"}
            json.dump(meta, open(os.path.join(d, "meta.json"), "w"), indent=1)


if __name__ == "__main__":
    main()
