#!/usr/bin/env python3
"""Checker self-test (DESIGN §8): apply every variant under selftest/variants to a copy of the
repository, run all claimed checks, and compare with the expectation encoded in the file name:
  silent_*   behaviour-preserving edit: every check must exit 0 (false-alarm control)
  break_<ID>_*  property-breaking edit: the check of <ID> must exit 1
usage: run_variants.py [name-filter ...]      env AVG_REPO = repository copy to patch (default /repo)
"""
import json, os, subprocess, sys, re, glob

VERIF = os.path.dirname(os.path.dirname(os.path.abspath(__file__)))
repo = os.environ.get("AVG_REPO", "/repo")
filt = sys.argv[1:]
ids = [c["property_id"] for c in json.load(open(os.path.join(VERIF, "MANIFEST.json")))["checks"]]
assert subprocess.run(["git", "-C", repo, "diff", "--quiet"]).returncode == 0, "repository copy is dirty"
report = {}
bad = 0
for pth in sorted(glob.glob(os.path.join(VERIF, "selftest", "variants", "*.patch"))):
    name = os.path.basename(pth)[:-6]
    if filt and not any(f in name for f in filt):
        continue
    if subprocess.run(["git", "-C", repo, "apply", pth]).returncode != 0:
        report[name] = {"error": "does not apply"}
        print(name, "DOES NOT APPLY", flush=True)
        bad += 1
        continue
    try:
        m = re.match(r"break_(C\d+)_", name)
        todo = ids if name.startswith("silent_") else ([m.group(1)] if m else ids)
        res = {}
        for pid in todo:
            env = dict(os.environ, VERIF_EVIDENCE_DIR="/tmp/ev-scratch-variants", AVG_REPO=repo)
            os.makedirs("/tmp/ev-scratch-variants", exist_ok=True)
            out = subprocess.run([os.path.join(VERIF, "check"), pid, "--tier", "quick"], cwd=VERIF, env=env, stdout=subprocess.PIPE, stderr=subprocess.STDOUT, text=True)
            lines = [l.strip()[:400] for l in out.stdout.splitlines() if l.startswith("  [") or l.startswith("INCONCLUSIVE")]
            res[pid] = {"exit": out.returncode, "lines": lines[:4]}
        if name.startswith("silent_"):
            alarms = {p: r for p, r in res.items() if r["exit"] != 0}
            ok = not alarms
            print(name, "SILENT" if ok else "FALSE ALARM in %s" % sorted(alarms), flush=True)
            for p, r in alarms.items():
                for l in r["lines"][:2]:
                    print("     ", p, l[:300], flush=True)
        else:
            ok = all(r["exit"] == 1 for r in res.values())
            print(name, "DETECTED" if ok else "MISSED", {p: r["exit"] for p, r in res.items()}, flush=True)
        inc = {p: r["lines"] for p, r in res.items() if any(l.startswith("INCONCLUSIVE") for l in r["lines"])}
        if inc:
            print("      inconclusive:", {p: l[0][:160] for p, l in inc.items()}, flush=True)
        report[name] = {"ok": ok, "results": res}
        bad += 0 if ok else 1
    finally:
        subprocess.run(["git", "-C", repo, "checkout", "--", "."])
        subprocess.run(["git", "-C", repo, "clean", "-fdq", "-e", "target"])   # files a patch created
json.dump(report, open(os.path.join(VERIF, "selftest", "REPORT.json"), "w"), indent=1)
print("variants: %d, unexpected: %d" % (len(report), bad))
sys.exit(1 if bad else 0)
