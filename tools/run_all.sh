#!/bin/sh
# run every claimed check on the current /repo tree (rewrites /verif/evidence/*.json)
cd /verif || exit 2
TIER="${1:-quick}"
rc=0
for id in $(python3 -c "import json;print(' '.join(c['property_id'] for c in json.load(open('MANIFEST.json'))['checks']))"); do
  ./check "$id" --tier "$TIER" | tail -1
  [ "$?" = 0 ] || rc=1
done
exit $rc
