#!/bin/sh
# usage: try_patch.sh <patch.diff> <property-id>...   — apply a seeded change to /repo, run checks, undo.
P="$1"; shift
cd /repo || exit 2
git diff --quiet || { echo "/repo is dirty"; exit 2; }
git apply "$P" || { echo "patch does not apply"; exit 2; }
for id in "$@"; do
  (cd /verif && ./check "$id" ${TIER:+--tier $TIER}; echo "exit=$?")
done
git -C /repo checkout -- .
git -C /repo status --short | head -3
