#!/bin/sh
# usage: try_patch.sh <patch.diff> <property-id>...   — apply a seeded change to /repo, run checks, undo.
P="$1"; shift
cd /repo || exit 2
git diff --quiet || { echo "/repo is dirty"; exit 2; }
git apply "$P" || { echo "patch does not apply"; exit 2; }
mkdir -p /tmp/ev-scratch
for id in "$@"; do
  (cd /verif && VERIF_EVIDENCE_DIR=/tmp/ev-scratch ./check "$id" ${TIER:+--tier $TIER}; echo "exit=$?")
done
git -C /repo checkout -- .
git -C /repo status --short | head -3
