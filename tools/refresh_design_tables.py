#!/usr/bin/env python3
"""rewrite the DESIGN §8.1 tables of the generated batches (c..) from seeded/MATRIX.json"""
import os, re, subprocess, sys
V = os.path.dirname(os.path.dirname(os.path.abspath(__file__)))
s = open(os.path.join(V, "DESIGN.md")).read()
for b in sys.argv[1:] or ["c", "d", "e", "f", "g", "h", "i"]:
    tab = subprocess.check_output([sys.executable, os.path.join(V, "tools", "design_table.py"), b], text=True)
    rows = tab.splitlines()[2:]
    m = re.search(r"(\| C\d\d-%s\d \|[^\n]*\n)+" % b, s)
    if not m:
        print("no table for batch", b)
        continue
    s = s[:m.start()] + "\n".join(rows) + "\n" + s[m.end():]
open(os.path.join(V, "DESIGN.md"), "w").write(s)
