#!/usr/bin/env python3
"""print the DESIGN §8.1 table rows of one batch of seeded changes from seeded/MATRIX.json + meta.json
usage: design_table.py <batch-letter>"""
import json, os, re, sys
V = os.path.dirname(os.path.dirname(os.path.abspath(__file__)))
mx = json.load(open(os.path.join(V, "seeded", "MATRIX.json")))
b = sys.argv[1]
print("| change | property | rules that report it | what it is |")
print("|--------|----------|----------------------|------------|")
for name in sorted(mx):
    if not re.match(r"C\d+-%s\d$" % b, name):
        continue
    e = mx[name]
    meta = json.load(open(os.path.join(V, "seeded", name, "meta.json")))
    note = meta.get("needs_to_manifest", "")
    title = ""
    for ln in note.splitlines():
        ln = ln.strip().lstrip("#").strip()
        if ln:
            title = ln
            break
    title = re.sub(r"^(C\d+\s*[/:,-]?\s*)?((change|seed\w*|batch)\s*\w*\s*[/:,-]*\s*)*", "", title, flags=re.I).strip(" -—:*")
    rules = []
    for p, c in e.get("checks", {}).items():
        for k in c.get("violation_keys", []):
            r = k.split()[0]
            if r not in rules:
                rules.append(r)
    print("| %s | %s | %s | %s |" % (name, e.get("property"), ", ".join(rules) if e.get("detected") else "**missed**", title[:150]))
